#!/usr/bin/env python3
"""Regenerates MANIFEST.json from the table below (kept in one place so it stays valid)."""
import json
import os

HERE = os.path.dirname(os.path.abspath(__file__))

TECH = "bounded symbolic execution of the real gwf functions (CrossHair 0.0.110 + z3 5.1): 'Confirmed over all paths' per query; counterexamples replayed concretely"

CLAIMS = {
    "C01": {
        "text": "Bounded symbolic model checking of should_run / get_status_map / submit_workflow against the make-semantics statement: modification times are unbounded "
                "symbolic integers (ties and partial orders are solver-found), existence, spec-hash situation and container shape are selector variables; every feasible path inside "
                "the bound is explored and the negated oracle equality is unsat on each.",
        "note": "Bound: <=2 (quick) / <=3 (thorough) inputs and outputs per target, shape catalogue, chain of 2 targets for the composition. Trusted: CrossHair's model of int/bool, z3, "
                "the VFS stub for os.stat. mtimes are ints (gwf only orders them).",
        "design": "DESIGN.md section 4, C01",
    },
    "C02": {
        "text": "Bounded symbolic model checking of schedule/submit_workflow/get_status_map (real should_run, real name filters, real Graph) against the independent plan "
                "specification: for every DAG shape in the bound, the stale bit and the backend state (6 values) of every target are symbolic; the recorded submit() calls "
                "must be exactly the stale cone, once each, dependencies first, with exactly the incomplete direct dependencies as prerequisites; TrackingBackend.submit maps "
                "dependency targets to their currently tracked ids.",
        "note": "Bound: all DAG shapes on 3 targets (x2 name labellings), diamond on 4 (quick); all 64 shapes on 4 (thorough); selection catalogue of 6 pattern sets. "
                "Staleness is realised as 'the single output file is missing'. Backend = recording stub (the real backends are C07/C08).",
        "design": "DESIGN.md section 4, C02",
    },
    "C07": {
        "text": "Bounded symbolic model checking of the four backends' submit paths over scheduler simulators: the argv/request each scheduler receives is parsed by an "
                "independent reference reader of its dependency syntax and must name exactly the job ids returned for the incomplete direct dependencies, with the holding "
                "kind that never releases on failure (afterok / done() / pool deps; hold_jid for SGE); ids survive the stdout round trip and a second gwf invocation; "
                "finish times are symbolic so that 'start >= finish of every required job under every schedule the contract allows' is decided by the solver.",
        "note": "Bound: <=3 prerequisites from an id catalogue, 4-target workflow, two invocations, 5 abstract job states. Trusted: simulator output formats (documented formats for "
                "the flags gwf passes), the reference readers, the assumption that schedulers honour their dependency syntax.",
        "design": "DESIGN.md section 4, C07",
    },
    "C10": {
        "text": "Bounded symbolic model checking of script generation: the script captured by the scheduler simulator is read back by independent readers (directive reader, POSIX shell word "
                "reader for the cd line) and compared with the precedence fold backend default < workflow default < template < keyword; the spec text is a symbolic string (verbatim tail, "
                "cd and set -e before it); directory names range over a metacharacter alphabet; log directives are checked against what `gwf logs` opens; clean_logs over log/target name sets.",
        "note": "Bound: one option varied over absent/None/value at three levels (+ a second option, + an unknown option), spec <= 4 (6) symbolic characters, directory names <= 2 (3) "
                "characters over 18 characters, 5 (6) log names incl. dotted prefixes. What bash does with the spec and how schedulers parse directive values is outside the claim.",
        "design": "DESIGN.md section 4, C10",
    },
    "C19": {
        "text": "E2 kernel: the name regular expression (literal or compiled module-level pattern, with its flags) is read from the AST, parsed by re._parser, its single-character sets are computed "
                "with the real engine for every code point <= U+2FFFF, and its Python-semantics language is proved equal to the identifier-like language in the regex theory "
                "(unbounded length; z3 5.1, z3 4.8.12 and cvc5 agree). CrossHair queries: path validation over symbolic strings, value kinds, every creation mode x template working_dir x pair "
                "of invoking directories (os.getcwd interposed) gives identical absolute paths and cd target, cli.main/find_workflow from a symbolic nesting depth reach the same project "
                "and state directory, map names distinct/valid/deterministic.",
        "note": "Bound: path strings <= 1 symbolic character over U+0000..U+00FF (quick), catalogues of value kinds, 4 invoking directories, 7 template working_dir forms, <= 4 map items. "
                "Workflow files of six names loaded from three invoking directories (real temporary files). Lexical normalisation only; click parsing and entry-point discovery outside.",
        "design": "DESIGN.md section 4, C19",
    },
    "C20": {
        "text": "E2 kernel: get_namespace's prefix test and slice arithmetic are read from the AST and proved equal to 'key = ns + \".\" + rest -> rest' in the string theory (unbounded). "
                "CrossHair queries over the real config command bodies and cli.main: coercion and round trip through the file in a later invocation, one inductive step of set/unset/get "
                "on an arbitrary user map (only that key changes, defaults never written), flag > config > default for backend/verbosity/colour, and the selected backend's settings "
                "(and no foreign key) reaching the real backend factories (sacct consulted iff accounting enabled, pool client host/port).",
        "note": "Bound: value and key catalogues (23 values, 6 keys), 3-key arbitrary pre-state, all flag/config/default combinations. Trusted: VFS, simulator, recorded configure_logging.",
        "design": "DESIGN.md section 4, C20",
    },
    "C03": {
        "text": "Bounded symbolic model checking of path normalisation and Graph.from_targets: every (target, file) role is a symbolic selector, every target has its own working directory and "
                "spelling of every file; dependencies, dependents (exact inverse), endpoints, provides, unresolved and dfs order must equal the relation computed by the independent "
                "graph specification; a spelling query compares normalised equality with canonical identity over generated spellings and working directories (os.getcwd interposed); "
                "`gwf info` output (json and pretty) is compared with the same relations.",
        "note": "Bound: 2 targets x 3 files and 3 x 2 (quick), 3 x 3 all definition orders (thorough); 8 generated spellings x 5 working directories. normpath is C code, so spellings are a "
                "generated catalogue selected by solver variables, not symbolic strings. No symlinks.",
        "design": "DESIGN.md section 4, C03",
    },
    "C04": {
        "text": "Bounded symbolic model checking of validation: role matrix (none/input/output/both) and existence of every file symbolic, no well-formedness assumption; accept iff no "
                "double producer, no missing unproduced input, no cycle in the transitive closure (computed independently); a raised error's own condition must hold. Command bodies on "
                "ill-formed workflows must fail with the right error and leave the VFS and the scheduler untouched. Depth: chain length symbolic under a scaled-down recursion budget.",
        "note": "Bound: 3 targets x 2 files (quick) / 3 x 3 (thorough). The depth clause is a KNOWN FINDING (RecursionError beyond a few hundred targets): its query is not run while the "
                "witness still fails; it is replayed at real scale (3000 targets).",
        "design": "DESIGN.md section 4, C04",
    },
    "C08": {
        "text": "Bounded symbolic model checking of the state mapping of all four backends through the real create_backend/TrackingBackend over simulators: the own job's code ranges over "
                "the reference table of documented codes (24 squeue, 16 sacct, 12 bjobs, 22 qstat, 8 pool), with stale accounting rows, accounting on/off, unrelated jobs with prefix/"
                "extension ids, another tracked job; the class demanded by the statement (or the safety rule for codes it does not name) must result; squeue beats sacct; sacct never "
                "consulted when disabled; resubmission replaces the id across invocations; sacct batching covers every id exactly once for symbolic batch sizes.",
        "note": "Reference tables transcribed from the manuals from memory (echoed in evidence). Restart of the local pool reusing ids is a KNOWN FINDING (excluded by precondition, witness kept).",
        "design": "DESIGN.md section 4, C08 and appendix A",
    },
    "C11": {
        "text": "Bounded symbolic model checking of the real pool coroutines (Scheduler.try_handle_task etc.) run by asyncio's pure-Python Task/Future on a deterministic loop: the "
                "environment's event script (which live child exits with which symbolic status, which task is cancelled, when timers fire, when late tasks arrive) is symbolic; a child may "
                "only be spawned at an instant at which every dependency is done and COMPLETED, and never after a dependency failed, timed out or was cancelled.",
        "note": "Bound: 3-task DAGs (chain, fork, join, late submission, time-limited dependency), scripts of 3 (quick) / 4 (thorough) events + drain, 1-2 cores. Fake child processes; "
                "grandchildren and real time outside.",
        "design": "DESIGN.md section 4, C11-C13",
    },
    "C12": {
        "text": "Same machinery as C11 with a counting proxy around the real semaphore: at every quiescent point live children <= cores, no release without acquire, no free core while a ready "
                "task waits, balance at the end - for scenarios with failed/skipped/timed-out/cancelled tasks followed by further tasks, including a child that ignores SIGTERM.",
        "note": "Bound: 3-4 task scenarios, scripts of 3-4 events + drain, 1-2 cores.",
        "design": "DESIGN.md section 4, C11-C13",
    },
    "C13": {
        "text": "Same machinery as C11: after the environment delivered everything every task is final, its state is the one the local-pool specification assigns to what happened (exit status "
                "symbolic, start failure and log-write failure as symbolic masks, cancel at any quiescent await point, time limits), final states never change (also under cancel), a task is "
                "started at most once, logs of completed tasks equal the child's output, no child is alive at the end.",
        "note": "Bound as C11; 'none of the task's processes keeps running' is claimed for the direct child only.",
        "design": "DESIGN.md section 4, C11-C13",
    },
    "C14": {
        "text": "Bounded symbolic model checking of Server.handle_connection for two connections on the deterministic loop: client A's lines are selectors over 20 message shapes (valid, "
                "malformed, wrong types, unknown ids, ids as strings, not JSON), followed by keeping/dropping the connection or a broken writer, interleaved with client B's task exit; B must "
                "still be served with the pool's true states, no id twice in an answer or across accepted tasks, every accepted task final, cores balanced, later enqueues accepted and run.",
        "note": "Bound: 2 lines of A (quick), 2-3 (thorough). JSON decoding is C code, hence a catalogue instead of arbitrary bytes. An exception in A's handler ends only that handler "
                "(asyncio start_server contract).",
        "design": "DESIGN.md section 4, C14",
    },
    "C05": {
        "text": "Bounded symbolic model checking of the real status / run --dry-run / run command bodies over the VFS and the simulators: from one symbolic project state (existence of "
                "outputs, earlier job of each target in one of 6 abstract states, spec-hash situation) the table shown by status equals the plan specification, its to-be-run rows equal "
                "the dry-run's 'Would submit' records and the jobs the run creates; the previews issue no mutating scheduler command, change no file, and leave both state files "
                "JSON-equal; every filter/format combination shows the restriction of that table.",
        "note": "Bound: 3 targets (chain, fork), Slurm and pool (quick) / all four backends (thorough); 8 (48) filter combinations. Modification times concrete here (symbolic in C01/C06/C16).",
        "design": "DESIGN.md section 4, C05",
    },
    "C06": {
        "text": "Bounded symbolic model checking of run -> drain -> status -> run -> perturb -> run with the real command bodies: initial existence and modification times, earlier job "
                "states and - crucially - the finish time of every submitted job are symbolic integers constrained only by the scheduler contract derived from the prerequisites the "
                "reference reader parsed (f_j >= f_p); all legal schedules are therefore the models of linear constraints decided by z3, not an enumeration. Afterwards every target with "
                "outputs must be completed, the re-run a no-op, and after touching a source / deleting an output exactly the downstream closure is submitted.",
        "note": "Bound: chain of 2 with earlier jobs, fork/join/sink on 3 from a fresh project (quick); arbitrary initial files, all backends, hashing, diamond (thorough). One perturbation round.",
        "design": "DESIGN.md section 4, C06",
    },
    "C09": {
        "text": "Bounded symbolic fault/crash-point analysis of the real run body: the index of the failing scheduler command (3 failure kinds) and the index of the operation at which the "
                "process is killed (every file-system primitive incl. each write() of json.dump and os.replace, every scheduler command before/after it took effect) are symbolic "
                "integers; afterwards state files must load, a fault-free run must start, must not resubmit accepted pending jobs, must name the accepted ids as prerequisites, and spec "
                "hashes exist only for accepted targets.",
        "note": "Bound: chain of 2 / fork of 3, <= 7 commands, <= 45 operations. KNOWN FINDING: a hard kill between the first acceptance and close() loses the accepted ids (excluded region, "
                "witness kept; the other clauses are still checked at those crash points). VFS is sequentially consistent.",
        "design": "DESIGN.md section 4, C09",
    },
    "C15": {
        "text": "Bounded symbolic model checking of the real clean body: existence of every output, --all, --force, the prompt answer, spec hashing and 'output is a symlink to an unrelated "
                "file' are symbolic booleans, pattern set and protect set selectors; the world afterwards must equal the world before minus exactly the existing unprotected outputs of "
                "the selected (non-endpoint unless --all) targets and minus their hash records; a declined prompt changes nothing.",
        "note": "Bound: 3 targets (chain, fork; + two endpoints in thorough), 6 pattern sets, 6 protect spellings.",
        "design": "DESIGN.md section 4, C15",
    },
    "C16": {
        "text": "Bounded symbolic model checking of the real touch body followed by the real status body: existence and modification time of every file and the clock increments before "
                "successive touches are symbolic integers (ties allowed), selection and hash-record situation selectors; every cone target with outputs must then be completed, records "
                "= current specs, contents unchanged, new files empty, nothing outside the cone changed.",
        "note": "Bound: 3 targets (chain x 4 selections, fork, join) quick; + diamond, two endpoints thorough. No job known to the backend, no future-dated source (statement).",
        "design": "DESIGN.md section 4, C16",
    },
    "C17": {
        "text": "Bounded symbolic model checking of the real cancel body on all four backends: per-target job state, selection, --force/prompt answer and the position of a failing cancel "
                "command are symbolic; the cancel commands the simulator received must be exactly the tracked ids of the selected targets (each once, also after a failure), untracked "
                "targets reported, declined prompt = no command; afterwards status shows none of them live and run resubmits them.",
        "note": "Bound: chain of 3, 5 selections, 3 (4) job states, failing command position 0..3. scancel signals failure only on stderr (as real Slurm).",
        "design": "DESIGN.md section 4, C17",
    },
    "C18": {
        "text": "Bounded symbolic model checking against the reference record model: (a) one inductive step from an arbitrary record map (absent/current/outdated per target, stray record, "
                "no file) for run (incl. the k-th sbatch rejected), dry-run, status, touch, clean with hashing on and off; (b) histories of 2 (3) steps over run+drain / dry-run / status / "
                "touch / clean / spec edits / enable-disable / rejected run: after every step the file equals the model and status follows the records.",
        "note": "Bound: chain of 2 on Slurm; histories <= 3 steps from a fresh project.",
        "design": "DESIGN.md section 4, C18",
    },
}

PENDING = {}

NOT_YET = "check not built yet in this session (work in progress; see DESIGN.md section 4 for the planned queries)"


def main():
    props = [json.loads(l) for l in open(os.path.join(HERE, "properties.jsonl"))]
    checks = []
    na = []
    for p in props:
        pid = p["id"]
        if pid in CLAIMS:
            c = CLAIMS[pid]
            checks.append({
                "property_id": pid,
                "quick_cmd": "./check.py %s --tier quick" % pid,
                "thorough_cmd": "./check.py %s --tier thorough" % pid,
                "evidence_file": "/verif/evidence/%s.json" % pid,
                "replay_cmd_template": "./check.py --replay {path}",
                "engine": "crosshair+z3",
                "level_claimed": {"category": "model_checking", "text": c["text"], "design_ref": c["design"]},
                "level_note": c["note"],
                "technique": c.get("technique", TECH),
            })
        else:
            na.append({"property_id": pid, "reason": PENDING.get(pid, NOT_YET)})
    man = {
        "version": 1,
        "setup_cmd": "./setup.sh",
        "hooks": {
            "guard": "GWF_VERIF",
            "enable": "no source hook is needed: every stub is installed from the query by interposition (os.stat, open, subprocess.Popen, asyncio.create_subprocess_shell, ...); "
                      "checks import /repo/src directly (PYTHONPATH) so they always analyse the current working tree. GWF_VERIF=1 is exported by check.py but no line of /repo reads it.",
            "baseline_off_cmd": "cd /repo && /venv/bin/python -m pytest -ra -q -p no:cacheprovider --timeout=900 --continue-on-collection-errors",
            "source_commits": [],
            "add_only": True,
        },
        "engines": [
            {"name": "crosshair+z3", "path": "/verif/vf", "serves_properties": sorted(CLAIMS),
             "kind_free_text": "symbolic execution of the real Python code objects (CrossHair) with z3 deciding every branch; queries in vf/props, environment model in vf/world"},
        ],
        "checks": checks,
        "notes": "Exit codes: 0 all queries confirmed over all paths within their bounds; 1 reproduced counterexample (VIOLATION line); 3 inconclusive (never a pass). "
                 "Genuine defects repaired in /repo are listed as 'fixed' in known_findings.json.",
        "not_applicable": na,
    }
    json.dump(man, open(os.path.join(HERE, "MANIFEST.json"), "w"), indent=1)
    print("MANIFEST.json: %d checks, %d not_applicable" % (len(checks), len(na)))


if __name__ == "__main__":
    main()
