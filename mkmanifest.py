#!/usr/bin/env python3
"""Regenerates MANIFEST.json from the table below (kept in one place so it stays valid)."""
import json
import os

HERE = os.path.dirname(os.path.abspath(__file__))

TECH = "bounded symbolic execution of the real gwf functions (CrossHair 0.0.110 + z3 5.1): 'Confirmed over all paths' per query; counterexamples replayed concretely"

CLAIMS = {
    "C01": {
        "text": "Bounded symbolic model checking of should_run / get_status_map / submit_workflow against the make-semantics statement: modification times are unbounded "
                "symbolic integers (ties and partial orders are solver-found), existence, spec-hash situation and container shape are selector variables; every feasible path inside "
                "the bound is explored and the negated oracle equality is unsat on each.",
        "note": "Bound: <=2 (quick) / <=3 (thorough) inputs and outputs per target, shape catalogue, chain of 2 targets for the composition. Trusted: CrossHair's model of int/bool, z3, "
                "the VFS stub for os.stat. mtimes are ints (gwf only orders them).",
        "design": "DESIGN.md section 4, C01",
    },
    "C02": {
        "text": "Bounded symbolic model checking of schedule/submit_workflow/get_status_map (real should_run, real name filters, real Graph) against the independent plan "
                "specification: for every DAG shape in the bound, the stale bit and the backend state (6 values) of every target are symbolic; the recorded submit() calls "
                "must be exactly the stale cone, once each, dependencies first, with exactly the incomplete direct dependencies as prerequisites; TrackingBackend.submit maps "
                "dependency targets to their currently tracked ids.",
        "note": "Bound: all DAG shapes on 3 targets (x2 name labellings), diamond on 4 (quick); all 64 shapes on 4 (thorough); selection catalogue of 6 pattern sets. "
                "Staleness is realised as 'the single output file is missing'. Backend = recording stub (the real backends are C07/C08).",
        "design": "DESIGN.md section 4, C02",
    },
    "C07": {
        "text": "Bounded symbolic model checking of the four backends' submit paths over scheduler simulators: the argv/request each scheduler receives is parsed by an "
                "independent reference reader of its dependency syntax and must name exactly the job ids returned for the incomplete direct dependencies, with the holding "
                "kind that never releases on failure (afterok / done() / pool deps; hold_jid for SGE); ids survive the stdout round trip and a second gwf invocation; "
                "finish times are symbolic so that 'start >= finish of every required job under every schedule the contract allows' is decided by the solver.",
        "note": "Bound: <=3 prerequisites from an id catalogue, 4-target workflow, two invocations, 5 abstract job states. Trusted: simulator output formats (documented formats for "
                "the flags gwf passes), the reference readers, the assumption that schedulers honour their dependency syntax.",
        "design": "DESIGN.md section 4, C07",
    },
    "C10": {
        "text": "Bounded symbolic model checking of script generation: the script captured by the scheduler simulator is read back by independent readers (directive reader, POSIX shell word "
                "reader for the cd line) and compared with the precedence fold backend default < workflow default < template < keyword; the spec text is a symbolic string (verbatim tail, "
                "cd and set -e before it); directory names range over a metacharacter alphabet; log directives are checked against what `gwf logs` opens; clean_logs over log/target name sets.",
        "note": "Bound: one option varied over absent/None/value at three levels (+ a second option, + an unknown option), spec <= 4 (6) symbolic characters, directory names <= 2 (3) "
                "characters over 18 characters, 5 (6) log names incl. dotted prefixes. What bash does with the spec and how schedulers parse directive values is outside the claim.",
        "design": "DESIGN.md section 4, C10",
    },
    "C19": {
        "text": "E2 kernel: the name regular expression is read from the AST and its Python-semantics language is proved equal to the identifier-like language in the regex theory "
                "(unbounded; z3 5.1, z3 4.8.12 and cvc5 agree). CrossHair queries: path validation over symbolic strings, value kinds, every creation mode x template working_dir x pair "
                "of invoking directories (os.getcwd interposed) gives identical absolute paths and cd target, cli.main/find_workflow from a symbolic nesting depth reach the same project "
                "and state directory, map names distinct/valid/deterministic.",
        "note": "Bound: path strings <= 1 symbolic character over U+0000..U+00FF (quick), catalogues of value kinds, 4 invoking directories, 7 template working_dir forms, <= 4 map items. "
                "Lexical normalisation only (no symlinks); click parsing and entry-point discovery outside.",
        "design": "DESIGN.md section 4, C19",
    },
    "C20": {
        "text": "E2 kernel: get_namespace's prefix test and slice arithmetic are read from the AST and proved equal to 'key = ns + \".\" + rest -> rest' in the string theory (unbounded). "
                "CrossHair queries over the real config command bodies and cli.main: coercion and round trip through the file in a later invocation, one inductive step of set/unset/get "
                "on an arbitrary user map (only that key changes, defaults never written), flag > config > default for backend/verbosity/colour, and the selected backend's settings "
                "(and no foreign key) reaching the real backend factories (sacct consulted iff accounting enabled, pool client host/port).",
        "note": "Bound: value and key catalogues (23 values, 6 keys), 3-key arbitrary pre-state, all flag/config/default combinations. Trusted: VFS, simulator, recorded configure_logging.",
        "design": "DESIGN.md section 4, C20",
    },
}

PENDING = {}

NOT_YET = "check not built yet in this session (work in progress; see DESIGN.md section 4 for the planned queries)"


def main():
    props = [json.loads(l) for l in open(os.path.join(HERE, "properties.jsonl"))]
    checks = []
    na = []
    for p in props:
        pid = p["id"]
        if pid in CLAIMS:
            c = CLAIMS[pid]
            checks.append({
                "property_id": pid,
                "quick_cmd": "./check.py %s --tier quick" % pid,
                "thorough_cmd": "./check.py %s --tier thorough" % pid,
                "evidence_file": "/verif/evidence/%s.json" % pid,
                "replay_cmd_template": "./check.py --replay {path}",
                "engine": "crosshair+z3",
                "level_claimed": {"category": "model_checking", "text": c["text"], "design_ref": c["design"]},
                "level_note": c["note"],
                "technique": c.get("technique", TECH),
            })
        else:
            na.append({"property_id": pid, "reason": PENDING.get(pid, NOT_YET)})
    man = {
        "version": 1,
        "setup_cmd": "./setup.sh",
        "hooks": {
            "guard": "GWF_VERIF",
            "enable": "no source hook is needed: every stub is installed from the query by interposition (os.stat, open, subprocess.Popen, asyncio.create_subprocess_shell, ...); "
                      "checks import /repo/src directly (PYTHONPATH) so they always analyse the current working tree. GWF_VERIF=1 is exported by check.py but no line of /repo reads it.",
            "baseline_off_cmd": "cd /repo && /venv/bin/python -m pytest -ra -q -p no:cacheprovider --timeout=900 --continue-on-collection-errors",
            "source_commits": [],
            "add_only": True,
        },
        "engines": [
            {"name": "crosshair+z3", "path": "/verif/vf", "serves_properties": sorted(CLAIMS),
             "kind_free_text": "symbolic execution of the real Python code objects (CrossHair) with z3 deciding every branch; queries in vf/props, environment model in vf/world"},
        ],
        "checks": checks,
        "notes": "Exit codes: 0 all queries confirmed over all paths within their bounds; 1 reproduced counterexample (VIOLATION line); 3 inconclusive (never a pass). "
                 "Genuine defects repaired in /repo are listed as 'fixed' in known_findings.json.",
        "not_applicable": na,
    }
    json.dump(man, open(os.path.join(HERE, "MANIFEST.json"), "w"), indent=1)
    print("MANIFEST.json: %d checks, %d not_applicable" % (len(checks), len(na)))


if __name__ == "__main__":
    main()
