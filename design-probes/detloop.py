"""Deterministic asyncio loop: real asyncio pure-Python Task/Future, virtual clock, no selector."""
import asyncio, heapq, collections
from asyncio import events, futures, tasks

class DetLoop(asyncio.AbstractEventLoop):
    def __init__(self):
        self._ready = collections.deque()
        self._timers = []
        self._now = 0.0
        self._seq = 0
        self.exceptions = []
        self._debug = False
    # --- scheduling primitives
    def time(self): return self._now
    def get_debug(self): return False
    def is_running(self): return True
    def is_closed(self): return False
    def call_soon(self, cb, *args, context=None):
        h = events.Handle(cb, args, self, context)
        self._ready.append(h); return h
    call_soon_threadsafe = call_soon
    def call_later(self, delay, cb, *args, context=None):
        return self.call_at(self._now + delay, cb, *args, context=context)
    def call_at(self, when, cb, *args, context=None):
        h = events.TimerHandle(when, cb, args, self, context)
        self._seq += 1
        heapq.heappush(self._timers, (when, self._seq, h)); h._scheduled = True
        return h
    def _timer_handle_cancelled(self, h): pass
    def create_future(self): return futures._PyFuture(loop=self)
    def create_task(self, coro, *, name=None, context=None):
        return tasks._PyTask(coro, loop=self, name=name, context=context)
    def call_exception_handler(self, ctx): self.exceptions.append(ctx)
    def default_exception_handler(self, ctx): self.exceptions.append(ctx)
    # --- driver
    def step(self):
        """Run one ready handle. Returns False if nothing ready."""
        if not self._ready: return False
        h = self._ready.popleft()
        if not h._cancelled:
            events._set_running_loop(self)
            try:
                h._run()
            finally:
                events._set_running_loop(None)
        return True
    def run_ready(self, limit=10000):
        n = 0
        while self.step():
            n += 1
            assert n < limit
    def pending_timers(self):
        return [(w, h) for (w, s, h) in sorted(self._timers) if not h._cancelled]
    def fire_next_timer(self):
        while self._timers:
            when, _, h = heapq.heappop(self._timers)
            if h._cancelled: continue
            self._now = max(self._now, when)
            self._ready.append(h)
            return True
        return False
