import asyncio, os, logging
logging.disable(logging.CRITICAL)
from gwf.backends.local import Scheduler
async def main():
    s = Scheduler(os.path.abspath("w"), 1)
    a = await s.enqueue_task("a", "true", "/nonexistent-dir", None, [])
    b = await s.enqueue_task("b", "true", ".", None, [a])
    await s.wait_for([a, b], timeout=2)
    print(s.task_states, "sem", s.cores_ressource._value, [t.done() for t in s.tasks.values()])
asyncio.run(main())
