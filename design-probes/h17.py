import logging, types, pathlib, os
from gwf import cli
from gwf.conf import FileConfig, CONFIG_DEFAULTS
from collections import ChainMap
print(type(cli.main), hasattr(cli.main.callback, "__wrapped__"))
body = cli.main.callback.__wrapped__
REC = {}
cli.configure_logging = lambda level_name: REC.__setitem__("verbose", level_name)
class FP(type(pathlib.PurePosixPath())):
    def mkdir(self, *a, **k): REC.setdefault("mkdir", []).append(str(self))
    def joinpath(self, *a): return FP(super().joinpath(*a))
    @property
    def parent(self): return FP(super().parent)
cli.find_workflow = lambda file: (FP("/proj/workflow.py"), "gwf")
def mkcfg(d): return FileConfig(path="/proj/.gwfconf.json", data=ChainMap(dict(d), dict(CONFIG_DEFAULTS)))
CFG = {}
cli.FileConfig = types.SimpleNamespace(load=lambda p: (REC.__setitem__("cfgpath", str(p)), mkcfg(CFG))[1])
cli.guess_backend = lambda: (0, "local")
def check(flag_b: int, cfg_b: int, flag_v: int, cfg_v: int) -> str:
    """
    pre: 0 <= flag_b <= 1 and 0 <= cfg_b <= 1 and 0 <= flag_v <= 1 and 0 <= cfg_v <= 1
    post: _ == ""
    """
    REC.clear(); CFG.clear()
    if cfg_b: CFG["backend"] = "sge"
    if cfg_v: CFG["verbose"] = "warning"
    ctx = types.SimpleNamespace(obj=None)
    body(ctx, "workflow.py:gwf", "slurm" if flag_b else None, "debug" if flag_v else "info", None)
    want_b = "slurm" if flag_b else ("sge" if cfg_b else "local")
    if ctx.obj.backend != want_b: return "backend %s want %s" % (ctx.obj.backend, want_b)
    if REC["cfgpath"] != "/proj/.gwfconf.json": return "cfg path " + REC["cfgpath"]
    want_v = "debug" if flag_v else ("warning" if cfg_v else "info")
    if REC["verbose"] != want_v: return "verbosity %s want %s (flag=%d cfg=%d)" % (REC["verbose"], want_v, flag_v, cfg_v)
    return ""
