from gwf.core import Target
from gwf.backends import slurm
from gwf.backends.slurm import SlurmOps, TARGET_DEFAULTS
T = Target(name="T", inputs=[], outputs=[], options={"cores": 1, "memory": "1g"}, working_dir="/w")
OPS = SlurmOps("/proj", "full", True, TARGET_DEFAULTS)
def check_spec(spec: str) -> bool:
    """
    pre: len(spec) <= 6
    post: _
    """
    T.spec = spec
    s = OPS.compile_script(T)
    head = OPS.compile_script.__self__ and None
    i = s.find("\nset -e\n\n")
    if i < 0: return False
    body = s[i + len("\nset -e\n\n"):]
    return body == spec or body == spec + "\n" and not spec.endswith("\n")
