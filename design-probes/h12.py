import asyncio, logging, time, atexit
from detloop import DetLoop
from gwf.backends import local
from gwf.backends.local import Scheduler, LocalStatus
logging.disable(logging.CRITICAL)

class FakeProc:
    def __init__(self, loop):
        self.returncode = None; self.exit = loop.create_future(); self.killed = False
    async def communicate(self):
        await asyncio.shield(self.exit); return b"out", b"err"
    def kill(self):
        self.killed = True
        if not self.exit.done(): self.returncode = -9; self.exit.set_result(-9)
    terminate = kill
    async def wait(self):
        await asyncio.shield(self.exit); return self.returncode
    def finish(self, rc):
        self.returncode = rc; self.exit.set_result(rc)

class SemProxy:
    def __init__(self, sem): self.sem = sem; self.acq = 0; self.rel = 0
    async def acquire(self):
        r = await self.sem.acquire(); self.acq += 1; return r
    def release(self):
        self.rel += 1; self.sem.release()

class W: pass
async def fake_shell(script, stdout=None, stderr=None, cwd=None):
    if W.spawn_fail: raise FileNotFoundError(cwd)
    p = FakeProc(W.loop); W.procs.append(p)
    W.dep_ok_at_spawn = all(W.s.task_states[d] == LocalStatus.COMPLETED and W.s.tasks[d].done() for d in W.deps)
    return p
asyncio.create_subprocess_shell = fake_shell
class FakeFile:
    def __enter__(self): return self
    def __exit__(self, *a): return False
    def write(self, b):
        if W.log_fail: raise OSError("disk full")
def fake_open(*a, **k):
    return FakeFile()
local.open = fake_open

COUNT = [0]; T0 = time.time()
atexit.register(lambda: print("paths", COUNT[0], "secs", time.time() - T0))
LS = [LocalStatus.FAILED, LocalStatus.COMPLETED, LocalStatus.CANCELLED, LocalStatus.KILLED]
def pick(i):
    if i == 0: return LS[0]
    if i == 1: return LS[1]
    if i == 2: return LS[2]
    return LS[3]

def check(ndeps: int, d0: int, d1: int, tl: bool, rc: int, spawn_fail: bool, log_fail: bool,
          c0: int, c1: int, c2: int, c3: int, c4: int) -> str:
    """
    pre: 0 <= ndeps <= 2 and 0 <= d0 <= 3 and 0 <= d1 <= 3
    pre: 0 <= c0 <= 3 and 0 <= c1 <= 3 and 0 <= c2 <= 3 and 0 <= c3 <= 3 and 0 <= c4 <= 3
    post: _ == ""
    """
    COUNT[0] += 1
    loop = DetLoop(); W.loop = loop; W.procs = []; W.spawn_fail = spawn_fail; W.log_fail = log_fail; W.dep_ok_at_spawn = None
    asyncio.events._set_running_loop(loop)
    try:
        s = Scheduler("/w", 1)
    finally:
        asyncio.events._set_running_loop(None)
    sem = SemProxy(s.cores_ressource); s.cores_ressource = sem
    W.s = s
    deps = [100, 101][:ndeps]; W.deps = deps
    dstates = [pick(d0), pick(d1)]
    for d in deps:
        s.tasks[d] = loop.create_future(); s.task_states[d] = LocalStatus.RUNNING
    def run_coro(coro):
        t = loop.create_task(coro); loop.run_ready(); return t.result()
    tid = run_coro(s.enqueue_task("t", "S", ".", 5 if tl else None, deps))
    task = s.tasks[tid]
    cancelled_req = False
    for c in (c0, c1, c2, c3, c4):
        # events: 0 = complete next dep ; 1 = proc exits rc ; 2 = cancel request ; 3 = fire next timer
        if c == 0:
            pend = [d for d in deps if not s.tasks[d].done()]
            if not pend: continue
            d = pend[0]; s.task_states[d] = dstates[deps.index(d)]; s.tasks[d].set_result(None)
        elif c == 1:
            live = [p for p in W.procs if p.returncode is None]
            if not live: continue
            live[0].finish(rc)
        elif c == 2:
            cancelled_req = True
            run_coro(s.cancel_task(tid))
        else:
            if not loop.fire_next_timer(): continue
        loop.run_ready()
        if sem.rel > sem.acq: return "over-release"
    # drain: complete everything outstanding
    for _ in range(6):
        for d in deps:
            if not s.tasks[d].done():
                s.task_states[d] = dstates[deps.index(d)]; s.tasks[d].set_result(None)
        for p in W.procs:
            if p.returncode is None: p.finish(rc)
        loop.run_ready()
        loop.fire_next_timer(); loop.run_ready()
    if not task.done(): return "task never finished"
    if sem.rel != sem.acq: return "unbalanced semaphore acq=%d rel=%d" % (sem.acq, sem.rel)
    if W.procs and W.dep_ok_at_spawn is False: return "spawned with incomplete dep"
    st = s.task_states[tid]
    if st in (LocalStatus.SUBMITTED, LocalStatus.RUNNING): return "non-final state " + st.name
    return ""
