import logging
from typing import Tuple, List
from gwf.core import Target, Graph
from gwf import scheduling
from gwf.scheduling import should_run

scheduling.logger = logging.getLogger("null")
scheduling.logger.disabled = True

class FS:
    def __init__(self, ex, mt):
        self.ex = ex; self.mt = mt
    def exists(self, p):
        return self.ex[p]
    def changed_at(self, p):
        if not self.ex[p]:
            raise FileNotFoundError(p)
        return self.mt[p]

class SH:
    def __init__(self, changed): self.changed = changed
    def has_changed(self, t): return "h" if self.changed else None

T = Target(name="T", inputs=["/i0", "/i1"], outputs=["/o0", "/o1"], options={}, working_dir="/w")

def spec(e_o0, e_o1, i0, i1, o0, o1, changed):
    if changed: return True
    if not (e_o0 and e_o1): return True
    newest_in = i0 if i0 >= i1 else i1
    oldest_out = o0 if o0 <= o1 else o1
    return newest_in > oldest_out

def check_inner(e_o0: bool, e_o1: bool, i0: int, i1: int, o0: int, o1: int, changed: bool) -> bool:
    fs = FS({"/i0": True, "/i1": True, "/o0": e_o0, "/o1": e_o1}, {"/i0": i0, "/i1": i1, "/o0": o0, "/o1": o1})
    got = should_run(T, fs, SH(changed))
    return got == spec(e_o0, e_o1, i0, i1, o0, o1, changed)
