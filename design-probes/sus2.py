import sys
from gwf.core import Target, Graph
from gwf.scheduling import get_status_map
from gwf.backends.base import BackendStatus
class FS:
    def exists(self,p): return True
    def changed_at(self,p): return 0
class SH:
    def has_changed(self,t): return None
class BE:
    def status(self, t): return BackendStatus.UNKNOWN
for n in (900, 1100, 2000):
    ts = [Target(f"t{i}", inputs=([f"/f{i-1}"] if i else []), outputs=[f"/f{i}"], options={}, working_dir="/w") for i in range(n)]
    for order, lst in (("fwd", ts), ("rev", ts[::-1])):
        try:
            g = Graph.from_targets(lst, FS()); r = "graph ok"
        except RecursionError as e:
            r = "graph RecursionError"; g = None
        if g is None:
            g = Graph.from_targets(ts, FS())
        try:
            m = get_status_map(g, FS(), SH(), BE()); r += ", status ok"
        except RecursionError:
            r += ", status RecursionError"
        print(n, order, r, sys.getrecursionlimit())
