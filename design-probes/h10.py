import sys, logging, inspect
from gwf.core import Target, Graph
from gwf import core, scheduling
from gwf.scheduling import get_status_map
from gwf.backends.base import BackendStatus
for m in (scheduling, core):
    m.logger = logging.getLogger("null"); m.logger.disabled = True
class FS:
    def exists(self,p): return True
    def changed_at(self,p): return 0
class SH:
    def has_changed(self,t): return None
class BE:
    def status(self, t): return BackendStatus.UNKNOWN
TS = [Target(f"t{i}", inputs=([f"/f{i-1}"] if i else []), outputs=[f"/f{i}"], options={}, working_dir="/w") for i in range(64)]
def check(n: int, rev: bool) -> bool:
    """
    pre: 1 <= n <= 48
    post: _
    """
    ts = []
    for i in range(48):
        if i < n: ts.append(TS[i])
    if rev: ts = ts[::-1]
    depth = len(inspect.stack(0))
    old = sys.getrecursionlimit()
    sys.setrecursionlimit(depth + 60)
    try:
        g = Graph.from_targets(ts, FS())
        get_status_map(g, FS(), SH(), BE())
        return True
    except RecursionError:
        return False
    finally:
        sys.setrecursionlimit(old)
