"""Probe: real `gwf run`/`gwf status` command bodies over a virtual world under CrossHair."""
import io, json, logging, os, types, atexit, time
import click
from gwf import Workflow
from gwf import core, scheduling
from gwf.core import Context
from gwf.backends import base, slurm
from gwf.backends.base import TrackingBackend
from gwf.backends.slurm import SlurmOps, TARGET_DEFAULTS
from gwf.plugins import run as run_mod, status as status_mod
from gwf.conf import FileConfig, CONFIG_DEFAULTS
from collections import ChainMap

logging.disable(logging.CRITICAL)

class Crash(BaseException): pass
class VFS:
    def __init__(self):
        self.files = {}   # path -> [mtime, content]
        self.clock = 1000
        self.ops = 0; self.crash_at = -1; self.dead = False
    def tick(self):
        if self.dead: raise Crash()
        if self.ops == self.crash_at:
            self.dead = True; raise Crash()
        self.ops += 1
    def stat(self, path):
        path = os.fspath(path)
        if path not in self.files: raise FileNotFoundError(path)
        return types.SimpleNamespace(st_mtime=self.files[path][0])
    def open(self, path, mode="r"):
        path = os.fspath(path)
        vfs = self
        if "w" in mode:
            self.tick()
            self.files[path] = [self.clock, ""]
            class W(io.StringIO):
                def write(s, data):
                    vfs.tick()
                    vfs.files[path][1] += data
                    return len(data)
            return W()
        if path not in self.files: raise FileNotFoundError(path)
        return io.StringIO(self.files[path][1])
    def listdir(self, d):
        d = d.rstrip("/") + "/"
        return [p[len(d):] for p in self.files if p.startswith(d) and "/" not in p[len(d):]]
    def remove(self, p):
        if p not in self.files: raise FileNotFoundError(p)
        del self.files[p]

V = None
class OsShim:
    path = os.path
    fspath = staticmethod(os.fspath)
    def stat(self, p): return V.stat(p)
    def listdir(self, p): return V.listdir(p)
    def remove(self, p): return V.remove(p)
core.os = OsShim(); run_mod.os = OsShim()
core.open = lambda p, m="r": V.open(p, m)
base.open = lambda p, m="r": V.open(p, m)

# simulated slurm
class Sim:
    def __init__(self): self.jobs = {}; self.next = 100; self.log = []
SIM = None
def fake_call(exe, *args, input=None):
    SIM.log.append((exe, args))
    if exe == "squeue":
        return "".join("%s;%s\n" % (j, st) for j, st in SIM.jobs.items() if st in ("PD", "R"))
    if exe == "sacct":
        ids = args[-1].split(",")
        long = {"PD": "PENDING", "R": "RUNNING", "F": "FAILED", "CA": "CANCELLED by 0", "CD": "COMPLETED"}
        return "".join("%s|%s\n" % (j, long[SIM.jobs[j]]) for j in ids if j in SIM.jobs)
    if exe == "sbatch":
        V.tick()
        jid = str(SIM.next); SIM.next += 1
        SIM.jobs[jid] = "PD"
        return jid + "\n"
    raise AssertionError(exe)
slurm.call = fake_call

WF = Workflow(working_dir="/proj")
A = WF.target("A", inputs=["/proj/src"], outputs=["/proj/a"]) << "make a"
B = WF.target("B", inputs=["/proj/a"], outputs=["/proj/b"]) << "make b"
run_mod.Workflow = types.SimpleNamespace(from_context=lambda ctx: WF)
status_mod.Workflow = run_mod.Workflow
mk = lambda name, working_dir, config: slurm.create_backend(working_dir, **config.get_namespace("backend.slurm"))
run_mod.create_backend = mk; status_mod.create_backend = mk
OUT = []
status_mod.click = types.SimpleNamespace(secho=lambda line, **k: OUT.append(line))

COUNT = [0]; T0 = time.time()
atexit.register(lambda: print("paths", COUNT[0], "secs", time.time() - T0))
CODES = ["PD", "R", "F", "CA", "CD"]


def check(k: int) -> str:
    """
    pre: 0 <= k <= 40
    post: _ == ""
    """
    global V, SIM
    COUNT[0] += 1
    V = VFS(); SIM = Sim()
    V.files["/proj/src"] = [5, ""]
    V.files["/proj/.gwf/slurm-backend-tracked.json"] = [0, "{}"]
    for t in (A, B): t.options = {}
    cfg = FileConfig(path="/proj/.gwfconf.json", data=ChainMap({}, dict(CONFIG_DEFAULTS)))
    ctx = Context(working_dir="/proj", config=cfg, backend="slurm", workflow_file="/proj/workflow.py", workflow_obj="gwf")
    V.crash_at = k
    try:
        run_mod.run.callback.__wrapped__(ctx, (), False)
    except Crash:
        pass
    crashed = V.dead
    V.dead = False; V.crash_at = -1
    accepted = dict(SIM.jobs)
    n0 = len(SIM.log)
    for t in (A, B): t.options = {}
    try:
        run_mod.run.callback.__wrapped__(ctx, (), False)
    except Exception as e:
        return "next invocation failed: %s (crash at op %d)" % (type(e).__name__, k)
    again = [a for e, a in SIM.log[n0:] if e == "sbatch"]
    if len(SIM.jobs) > 2: return "duplicate submissions: %d jobs for 2 targets (crash at op %d)" % (len(SIM.jobs), k)
    return ""
