from collections import ChainMap
from gwf.conf import FileConfig, try_conv, CONVERTERS, CONFIG_DEFAULTS

def oracle(v: str):
    if v in ("true", "yes"): return True
    if v in ("false", "no"): return False
    try:
        return int(v)
    except ValueError:
        return v

def check_conv(v: str) -> bool:
    """
    pre: len(v) <= 3
    post: _
    """
    c = FileConfig(path="/x", data=ChainMap({}, dict(CONFIG_DEFAULTS)))
    c["k"] = v
    got = c.get("k")
    exp = oracle(v)
    return type(got) is type(exp) and got == exp

def check_ns(k: str, ns_sel: int) -> bool:
    """
    pre: len(k) <= 16
    post: _
    """
    c = FileConfig(path="/x", data=ChainMap({k: 1, "backend.slurm.log_mode": "none"}, dict(CONFIG_DEFAULTS)))
    got = c.get_namespace("backend.slurm")
    exp = {"log_mode": "none"}
    if k.startswith("backend.slurm."):
        exp[k[len("backend.slurm."):]] = 1
    return got == exp
