"""Probe: real `gwf run`/`gwf status` command bodies over a virtual world under CrossHair."""
import io, json, logging, os, types, atexit, time
import click
from gwf import Workflow
from gwf import core, scheduling
from gwf.core import Context
from gwf.backends import base, slurm
from gwf.backends.base import TrackingBackend
from gwf.backends.slurm import SlurmOps, TARGET_DEFAULTS
from gwf.plugins import run as run_mod, status as status_mod
from gwf.conf import FileConfig, CONFIG_DEFAULTS
from collections import ChainMap

logging.disable(logging.CRITICAL)

class VFS:
    def __init__(self):
        self.files = {}   # path -> [mtime, content]
        self.clock = 1000
    def stat(self, path):
        path = os.fspath(path)
        if path not in self.files: raise FileNotFoundError(path)
        return types.SimpleNamespace(st_mtime=self.files[path][0])
    def open(self, path, mode="r"):
        path = os.fspath(path)
        vfs = self
        if "w" in mode:
            self.files[path] = [self.clock, ""]
            class W(io.StringIO):
                def write(s, data):
                    vfs.files[path][1] += data
                    return len(data)
            return W()
        if path not in self.files: raise FileNotFoundError(path)
        return io.StringIO(self.files[path][1])
    def listdir(self, d):
        d = d.rstrip("/") + "/"
        return [p[len(d):] for p in self.files if p.startswith(d) and "/" not in p[len(d):]]
    def remove(self, p):
        if p not in self.files: raise FileNotFoundError(p)
        del self.files[p]

V = None
class OsShim:
    path = os.path
    fspath = staticmethod(os.fspath)
    def stat(self, p): return V.stat(p)
    def listdir(self, p): return V.listdir(p)
    def remove(self, p): return V.remove(p)
core.os = OsShim(); run_mod.os = OsShim()
core.open = lambda p, m="r": V.open(p, m)
base.open = lambda p, m="r": V.open(p, m)

# simulated slurm
class Sim:
    def __init__(self): self.jobs = {}; self.next = 100; self.log = []
SIM = None
def fake_call(exe, *args, input=None):
    SIM.log.append((exe, args))
    if exe == "squeue":
        return "".join("%s;%s\n" % (j, st) for j, st in SIM.jobs.items() if st in ("PD", "R"))
    if exe == "sacct":
        ids = args[-1].split(",")
        long = {"PD": "PENDING", "R": "RUNNING", "F": "FAILED", "CA": "CANCELLED by 0", "CD": "COMPLETED"}
        return "".join("%s|%s\n" % (j, long[SIM.jobs[j]]) for j in ids if j in SIM.jobs)
    if exe == "sbatch":
        jid = str(SIM.next); SIM.next += 1
        SIM.jobs[jid] = "PD"
        return jid + "\n"
    raise AssertionError(exe)
slurm.call = fake_call

WF = Workflow(working_dir="/proj")
A = WF.target("A", inputs=["/proj/src"], outputs=["/proj/a"]) << "make a"
B = WF.target("B", inputs=["/proj/a"], outputs=["/proj/b"]) << "make b"
run_mod.Workflow = types.SimpleNamespace(from_context=lambda ctx: WF)
status_mod.Workflow = run_mod.Workflow
mk = lambda name, working_dir, config: slurm.create_backend(working_dir, **config.get_namespace("backend.slurm"))
run_mod.create_backend = mk; status_mod.create_backend = mk
OUT = []
status_mod.click = types.SimpleNamespace(secho=lambda line, **k: OUT.append(line))

COUNT = [0]; T0 = time.time()
atexit.register(lambda: print("paths", COUNT[0], "secs", time.time() - T0))
CODES = ["PD", "R", "F", "CA", "CD"]


def check(ea: bool, eb: bool, ms: int, ma: int, mb: int, ja: int, jb: int, fa: int, fb: int, now0: int) -> str:
    """
    pre: -1 <= ja <= 2 and -1 <= jb <= 2
    post: _ == ""
    """
    global V, SIM
    COUNT[0] += 1
    V = VFS(); SIM = Sim()
    # assumption: no file dated in the future of the run's start
    if not (ms <= now0 and ma <= now0 and mb <= now0): return ""
    V.files["/proj/src"] = [ms, ""]
    if ea: V.files["/proj/a"] = [ma, ""]
    if eb: V.files["/proj/b"] = [mb, ""]
    tracked = {}
    codes = ["F", "CA", "CD"]
    for name, j, jid in (("A", ja, "11"), ("B", jb, "12")):
        for k in range(3):
            if j == k:
                tracked[name] = jid; SIM.jobs[jid] = codes[k]
    V.files["/proj/.gwf/slurm-backend-tracked.json"] = [0, json.dumps(tracked)]
    for t in (A, B): t.options = {}
    cfg = FileConfig(path="/proj/.gwfconf.json", data=ChainMap({}, dict(CONFIG_DEFAULTS)))
    ctx = Context(working_dir="/proj", config=cfg, backend="slurm", workflow_file="/proj/workflow.py", workflow_obj="gwf")
    try:
        run_mod.run.callback.__wrapped__(ctx, (), False)
    except FileNotFoundError:
        return ""
    # drain: every submitted job finishes successfully at a symbolic time honouring its afterok list
    subs = [(a, i) for (e, a), i in zip([(e, a) for e, a in SIM.log if e == "sbatch"], range(99))]
    sb = [a for e, a in SIM.log if e == "sbatch"]
    newids = sorted(j for j in SIM.jobs if int(j) >= 100)
    tr = json.loads(V.files["/proj/.gwf/slurm-backend-tracked.json"][1])
    fin = {}
    for name, f in (("A", fa), ("B", fb)):
        jid = tr.get(name)
        if jid in newids:
            fin[jid] = f
    for jid, args in zip(newids, sb):
        pre = []
        for x in args:
            if x.startswith("--dependency=afterok:"):
                pre = x[len("--dependency=afterok:"):].split(":")
        if fin[jid] < now0: return ""
        for p in pre:
            if p in fin and fin[jid] < fin[p]: return ""     # scheduler contract
            if p not in fin: return "prereq on unknown job " + p
    for name, out in (("A", "/proj/a"), ("B", "/proj/b")):
        jid = tr.get(name)
        if jid in fin:
            V.files[out] = [fin[jid], ""]; SIM.jobs[jid] = "CD"
    del OUT[:]
    status_mod.status.callback.__wrapped__(ctx, (), False, "default", ())
    shown = {l.split()[1]: l.split()[2] for l in OUT}
    for n in ("A", "B"):
        if shown[n] != "completed": return "after drain %s is %s" % (n, shown[n])
    before = len(SIM.jobs)
    run_mod.run.callback.__wrapped__(ctx, (), False)
    if len(SIM.jobs) != before: return "second run submitted"
    return ""
