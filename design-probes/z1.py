import ast, re, time, z3
import re._parser as sp, re._constants as sc
src = open("/repo/src/gwf/utils.py").read()
tree = ast.parse(src)
fn = [n for n in tree.body if isinstance(n, ast.FunctionDef) and n.name == "is_valid_name"][0]
call = [n for n in ast.walk(fn) if isinstance(n, ast.Call) and isinstance(n.func, ast.Attribute) and n.func.attr in ("match","fullmatch","search")][0]
pat = call.args[0].value; how = call.func.attr
print("pattern", repr(pat), how)
S = z3.StringSort()
def cls(items):
    parts = []
    neg = False
    for op, av in items:
        if op == sc.LITERAL: parts.append(z3.Re(chr(av)))
        elif op == sc.RANGE: parts.append(z3.Range(chr(av[0]), chr(av[1])))
        elif op == sc.NEGATE: neg = True
        else: raise NotImplementedError(op)
    r = z3.Union(*parts) if len(parts) > 1 else parts[0]
    return z3.Intersect(z3.Complement(r), z3.AllChar(z3.ReSort(S))) if neg else r
def tr(seq, top=False):
    # returns z3 regex; handles AT_BEGINNING, AT_END ($: end or before final \n)
    out = []
    items = list(seq)
    for i, (op, av) in enumerate(items):
        if op == sc.AT:
            if av == sc.AT_BEGINNING: continue   # re.match anchors anyway
            if av == sc.AT_END:
                assert i == len(items) - 1
                out.append(z3.Option(z3.Re("\n"))); out.append("END"); continue
            if av == sc.AT_END_STRING:
                out.append("END"); continue
            raise NotImplementedError(av)
        elif op == sc.LITERAL: out.append(z3.Re(chr(av)))
        elif op == sc.IN: out.append(cls(av))
        elif op == sc.MAX_REPEAT:
            lo, hi, sub = av
            r = tr(sub)
            if lo == 0 and hi == sc.MAXREPEAT: out.append(z3.Star(r))
            elif lo == 1 and hi == sc.MAXREPEAT: out.append(z3.Plus(r))
            else: out.append(z3.Loop(r, lo, hi))
        else: raise NotImplementedError(op)
    anchored = bool(out) and isinstance(out[-1], str)
    if anchored: out.pop()
    if top and not anchored and how != "fullmatch": out.append(z3.Full(z3.ReSort(S)))
    return z3.Concat(*out) if len(out) > 1 else out[0]
impl = tr(sp.parse(pat), top=True)
letter = z3.Union(z3.Range("a","z"), z3.Range("A","Z"), z3.Re("_"))
spec = z3.Concat(letter, z3.Star(z3.Union(letter, z3.Range("0","9"), z3.Re("."))))
x = z3.String("x")
s = z3.Solver()
s.add(z3.InRe(x, impl) != z3.InRe(x, spec))
t=time.time(); r = s.check(); print(r, time.time()-t)
if str(r) == "sat":
    v = s.model()[x].as_string(); print("cex", repr(v))
    from gwf.utils import is_valid_name
    cex = v.encode().decode("unicode_escape") if "\\u" in v else v
    print("replay is_valid_name:", is_valid_name(cex), "spec says", re.fullmatch(r"[a-zA-Z_][a-zA-Z0-9._]*", cex) is not None)
