import traceback, pathlib, sys
from gwf.core import Target, Graph, AnonymousTarget
from gwf import Workflow
from gwf.scheduling import should_run
from gwf.conf import FileConfig
from collections import ChainMap
class FS:
    def exists(self,p): return True
    def changed_at(self,p): return 0
class SH:
    def has_changed(self,t): return None
def t(f):
    try:
        print(f.__name__, "->", f())
    except BaseException as e:
        print(f.__name__, "RAISED", type(e).__name__, e)
def c01_empty_named():
    a = Target("a", inputs=[], outputs={"A": []}, options={}, working_dir="/w")
    b = Target("b", inputs=[], outputs=[], options={}, working_dir="/w")
    c = Target("c", inputs=[], outputs=[[]], options={}, working_dir="/w")
    return [should_run(x, FS(), SH()) for x in (a,b,c)]
def c19_pathlike():
    return Target("a", inputs=[pathlib.Path("x")], outputs=[], options={}, working_dir="/w").flattened_inputs()
def c19_name_nl():
    return repr(Target("a\n", inputs=[], outputs=[], options={}, working_dir="/w").name)
def c19_template_wd():
    w = Workflow(working_dir="/proj")
    def tpl(): return AnonymousTarget(inputs=["in.txt"], outputs=["out.txt"], options={})
    t1 = w.target_from_template("t1", tpl())
    t2 = w.target("t2", inputs=["in.txt"], outputs=["out2.txt"])
    return t1.working_dir, t1.flattened_inputs(), t2.flattened_inputs()
def c20_unset_default():
    c = FileConfig(path="/nonexist", data=ChainMap({}, {"verbose":"info"}))
    del c["verbose"]; return "ok"
def c20_ns():
    c = FileConfig(path="/nonexist", data=ChainMap({"backend.slurm_old.x": 1, "backend.slurm.log_mode": "none"}, {}))
    return c.get_namespace("backend.slurm")
def c04_chain():
    n = 2000
    ts = [Target(f"t{i}", inputs=([f"/f{i-1}"] if i else []), outputs=[f"/f{i}"], options={}, working_dir="/w") for i in range(n)]
    g = Graph.from_targets(ts, FS()); return len(g)
def c05_summary_empty():
    from gwf.plugins.status import print_summary
    return print_summary({})
for f in (c01_empty_named, c19_pathlike, c19_name_nl, c19_template_wd, c20_unset_default, c20_ns, c04_chain, c05_summary_empty):
    t(f)
