import asyncio, time, os
from gwf.backends.local import Scheduler
async def main():
    s = Scheduler(os.path.abspath("w"), 1)
    a = await s.enqueue_task("a", "exit 1", ".", None, [])
    b = await s.enqueue_task("b", "true", ".", None, [a])
    await s.wait_for([a, b])
    print(s.task_states, "sem value", s.cores_ressource._value)
    c = await s.enqueue_task("c", "date +%s.%N > c.start; sleep 1; date +%s.%N > c.end", "w", None, [])
    d = await s.enqueue_task("d", "date +%s.%N > d.start; sleep 1; date +%s.%N > d.end", "w", None, [])
    await s.wait_for([c, d])
    r = {n: float(open(f"w/{n}").read()) for n in ("c.start","c.end","d.start","d.end")}
    print(r, "overlap:", r["d.start"] < r["c.end"] and r["c.start"] < r["d.end"])
asyncio.run(main())
