import asyncio, json, logging, time, atexit
from detloop import DetLoop
from gwf.backends import local
from gwf.backends.local import Scheduler, Server, LocalStatus, encode
logging.disable(logging.CRITICAL)

class FakeProc:
    def __init__(self, loop): self.returncode = None; self.exit = loop.create_future()
    async def communicate(self):
        await asyncio.shield(self.exit); return b"", b""
    def kill(self):
        if not self.exit.done(): self.returncode = -9; self.exit.set_result(-9)
    terminate = kill
    async def wait(self): await asyncio.shield(self.exit)
    def finish(self, rc): self.returncode = rc; self.exit.set_result(rc)
class W: pass
async def fake_shell(script, stdout=None, stderr=None, cwd=None):
    if not isinstance(script, str): raise ValueError("cmd must be a string")
    p = FakeProc(W.loop); W.procs.append(p); return p
asyncio.create_subprocess_shell = fake_shell
class FakeFile:
    def __enter__(self): return self
    def __exit__(self, *a): return False
    def write(self, b): pass
local.open = lambda *a, **k: FakeFile()

class Reader:
    def __init__(self, loop): self.loop = loop; self.lines = []; self.waiter = None; self.eof = False
    async def readline(self):
        while not self.lines:
            if self.eof: return b""
            self.waiter = self.loop.create_future(); await self.waiter
        return self.lines.pop(0)
    def feed(self, data):
        self.lines.append(data)
        if self.waiter and not self.waiter.done(): self.waiter.set_result(None)
    def feed_eof(self):
        self.eof = True
        if self.waiter and not self.waiter.done(): self.waiter.set_result(None)
class Writer:
    def __init__(self): self.out = []
    def write(self, b): self.out.append(b)
    async def drain(self): pass

MSGS = [
    encode("enqueue_task", name="x", script="S", time_limit=None, working_dir=".", deps=[]).encode(),
    encode("enqueue_task", name="x", script="S", time_limit=None, working_dir=".", deps=[99]).encode(),
    encode("enqueue_task", name="x", script="S", working_dir=".").encode(),
    b"not json\n",
    b"[1,2]\n",
    encode("cancel_task", tid=99).encode(),
    encode("bogus").encode(),
    encode("get_task_states").encode(),
]
COUNT = [0]; T0 = time.time()
atexit.register(lambda: print("paths", COUNT[0], "secs", time.time() - T0))

def check(m0: int, m1: int, m2: int, drop: bool) -> str:
    """
    pre: 0 <= m0 <= 7 and 0 <= m1 <= 7 and 0 <= m2 <= 7
    post: _ == ""
    """
    COUNT[0] += 1
    loop = DetLoop(); W.loop = loop; W.procs = []
    asyncio.events._set_running_loop(loop)
    try: s = Scheduler("/w", 2)
    finally: asyncio.events._set_running_loop(None)
    srv = Server(s)
    ra, wa, rb, wb = Reader(loop), Writer(), Reader(loop), Writer()
    ta = loop.create_task(srv.handle_connection(ra, wa)); tb = loop.create_task(srv.handle_connection(rb, wb))
    loop.run_ready()
    rb.feed(MSGS[0]); loop.run_ready()
    for m in (m0, m1, m2):
        for i in range(len(MSGS)):
            if m == i:
                ra.feed(MSGS[i]); loop.run_ready()
    if drop: ra.feed_eof(); loop.run_ready()
    # B's task runs to completion
    for p in list(W.procs): 
        if p.returncode is None: p.finish(0)
    loop.run_ready()
    rb.feed(MSGS[7]); loop.run_ready()
    if tb.done(): return "healthy client's handler died: %r" % (tb.exception(),)
    last = json.loads(wb.out[-1])
    if last.get("__kind__") != "task_states": return "no answer to B"
    first = json.loads(wb.out[0]); tidb = first["tid"]
    if last["tasks"].get(str(tidb)) != "COMPLETED": return "B's task state %r" % (last["tasks"].get(str(tidb)),)
    tids = [json.loads(x)["tid"] for x in wa.out + wb.out if json.loads(x).get("__kind__") == "task_enqueued"]
    if len(set(tids)) != len(tids): return "duplicate ids"
    rb.feed(MSGS[0]); loop.run_ready()
    if json.loads(wb.out[-1]).get("__kind__") != "task_enqueued": return "cannot enqueue any more"
    return ""
