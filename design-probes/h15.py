"""Probe: low-level interposition (os.stat, builtins.open, subprocess.Popen, Path.touch, os.remove, os.listdir) under CrossHair,
running real clean/touch/status/run/cancel command bodies for SGE."""
import builtins, io, json, logging, os, subprocess, shutil, pathlib, types, time, atexit
import click
from collections import ChainMap
from gwf import Workflow
from gwf.core import Context
from gwf.conf import FileConfig, CONFIG_DEFAULTS
from gwf.backends import sge
from gwf.plugins import run as run_mod, status as status_mod, clean as clean_mod, touch as touch_mod, cancel as cancel_mod
logging.disable(logging.CRITICAL)

ROOT = "/proj"
REAL = dict(stat=os.stat, open=builtins.open, listdir=os.listdir, remove=os.remove, popen=subprocess.Popen, which=shutil.which, touch=pathlib.Path.touch, utime=os.utime)

class VFS:
    def __init__(self): self.files = {}; self.clock = 1000; self.removed = []
V = None; SIMLOG = []; JOBS = {}
def virt(p):
    try: p = os.fspath(p)
    except TypeError: return False
    return isinstance(p, str) and (p == ROOT or p.startswith(ROOT + "/"))
def f_stat(p, *a, **k):
    if not virt(p): return REAL["stat"](p, *a, **k)
    p = os.fspath(p)
    if p in V.files: return os.stat_result((0o100644, 0, 0, 1, 0, 0, len(V.files[p][1]), V.files[p][0], V.files[p][0], V.files[p][0]))
    if any(q.startswith(p + "/") for q in V.files) or p in (ROOT, ROOT + "/.gwf", ROOT + "/.gwf/logs"):
        return os.stat_result((0o040755, 0, 0, 1, 0, 0, 0, 0, 0, 0))
    raise FileNotFoundError(p)
def f_open(p, mode="r", *a, **k):
    if not virt(p): return REAL["open"](p, mode, *a, **k)
    p = os.fspath(p)
    if "w" in mode:
        V.files[p] = [V.clock, ""]
        class Wr(io.StringIO):
            def write(s, d): V.files[p][1] += d; return len(d)
        return Wr()
    if p not in V.files: raise FileNotFoundError(p)
    return io.StringIO(V.files[p][1])
def f_listdir(p="."):
    if not virt(p): return REAL["listdir"](p)
    d = os.fspath(p).rstrip("/") + "/"
    return sorted({q[len(d):].split("/")[0] for q in V.files if q.startswith(d)})
def f_remove(p, *a, **k):
    if not virt(p): return REAL["remove"](p)
    p = os.fspath(p)
    if p not in V.files: raise FileNotFoundError(p)
    del V.files[p]; V.removed.append(p)
def f_touch(self, mode=0o666, exist_ok=True):
    p = str(self)
    if not virt(p): return REAL["touch"](self, mode, exist_ok)
    V.clock += 1
    if p in V.files: V.files[p][0] = V.clock
    else: V.files[p] = [V.clock, ""]
class FakePopen:
    def __init__(self, argv, **k):
        self.argv = argv; self.returncode = 0
    def communicate(self, input=None):
        exe = os.path.basename(self.argv[0]); args = self.argv[1:]
        SIMLOG.append((exe, tuple(args)))
        if exe == "qstat":
            rows = "".join("<job_list><JB_job_number>%s</JB_job_number><state>%s</state></job_list>" % (j, s) for j, s in JOBS.items() if s)
            return "<job_info><queue_info>%s</queue_info></job_info>" % rows, ""
        if exe == "qsub":
            jid = str(100 + len(JOBS)); JOBS[jid] = "qw"; return jid + "\n", ""
        if exe == "qdel":
            j = args[0]
            if j.strip() in JOBS and JOBS[j.strip()]: JOBS[j.strip()] = ""; return "", ""
            self.returncode = 1; return "", "denied: job does not exist"
        raise AssertionError(exe)
def install():
    os.stat = f_stat; builtins.open = f_open; io.open = f_open; os.listdir = f_listdir; os.remove = f_remove
    subprocess.Popen = FakePopen; shutil.which = lambda n, *a, **k: "/sim/" + n; pathlib.Path.touch = f_touch
def uninstall():
    os.stat = REAL["stat"]; builtins.open = REAL["open"]; io.open = REAL["open"]; os.listdir = REAL["listdir"]; os.remove = REAL["remove"]
    subprocess.Popen = REAL["popen"]; shutil.which = REAL["which"]; pathlib.Path.touch = REAL["touch"]

WF = Workflow(working_dir=ROOT)
A = WF.target("A", inputs=["src"], outputs=["a"]) << "make a"
B = WF.target("B", inputs=["a"], outputs=["b"], protect=["./b"]) << "make b"
C = WF.target("C", inputs=["b"], outputs=["c"]) << "make c"
fake_wf = types.SimpleNamespace(from_context=lambda ctx: WF)
mk = lambda name, working_dir, config: sge.create_backend(working_dir)
for m in (run_mod, status_mod, clean_mod, touch_mod, cancel_mod):
    m.Workflow = fake_wf
    if hasattr(m, "create_backend"): m.create_backend = mk
OUT = []
status_mod.click = types.SimpleNamespace(secho=lambda line, **k: OUT.append(line))
COUNT = [0]; T0 = time.time()
atexit.register(lambda: print("paths", COUNT[0], "secs", time.time() - T0))

def check(ea: bool, eb: bool, ec: bool, all_: bool, sel: int, ta: bool) -> str:
    """
    pre: 0 <= sel <= 2
    post: _ == ""
    """
    global V
    COUNT[0] += 1
    V = VFS(); del SIMLOG[:]; JOBS.clear(); del OUT[:]
    V.files[ROOT + "/src"] = [5, "S"]
    if ea: V.files[ROOT + "/a"] = [6, "a"]
    if eb: V.files[ROOT + "/b"] = [7, "b"]
    if ec: V.files[ROOT + "/c"] = [8, "c"]
    V.files[ROOT + "/.gwf/logs/A.stdout"] = [1, "log"]
    if ta:
        V.files[ROOT + "/.gwf/sge-backend-tracked.json"] = [1, json.dumps({"A": "55"})]; JOBS["55"] = "r"
    cfg = FileConfig(path=ROOT + "/.gwfconf.json", data=ChainMap({}, dict(CONFIG_DEFAULTS)))
    ctx = Context(working_dir=ROOT, config=cfg, backend="sge", workflow_file=ROOT + "/workflow.py", workflow_obj="gwf")
    pats = [(), ("A",), ("*",)][sel] if sel in (0, 1, 2) else ()
    before = dict((k, list(v)) for k, v in V.files.items())
    install()
    try:
        clean_mod.clean.callback.__wrapped__(ctx, pats, all_, True)
        removed = set(V.removed)
        touch_mod.touch.callback.__wrapped__(ctx, ())
        status_mod.status.callback.__wrapped__(ctx, (), False, "default", ())
        cancel_mod.cancel.callback.__wrapped__(ctx, ("A",), True)
    finally:
        uninstall()
    # oracle for clean
    selected = {"A", "B", "C"} if sel != 1 else {"A"}
    if not all_: selected -= {"C"}
    exp = set()
    for n, out, ex, prot in (("A", "a", ea, False), ("B", "b", eb, True), ("C", "c", ec, False)):
        if n in selected and ex and not prot: exp.add(ROOT + "/" + out)
    if removed != exp: return "clean removed %r expected %r" % (sorted(removed), sorted(exp))
    shown = {l.split()[1]: l.split()[2] for l in OUT}
    for n in ("A", "B", "C"):
        want = "running" if (n == "A" and ta) else "completed"
        if n == "A" and ta: continue
        if ta and n in ("B", "C"): continue
        if shown[n] != want: return "after touch %s is %s" % (n, shown[n])
    if ta and not any(e == "qdel" for e, a in SIMLOG): return "no qdel"
    return ""
