import sys, time, json
sys.path.insert(0, ".")
from crosshair.core_and_libs import analyze_function, run_checkables, MessageType
from crosshair.options import AnalysisOptionSet, AnalysisKind
from crosshair.core import deep_realize
from crosshair.tracers import NoTracing
import h1
REPLAY = []
def harness(e_o0: bool, e_o1: bool, i0: int, i1: int, o0: int, o1: int, changed: bool) -> bool:
    """
    post: _
    """
    ok = h1.check_inner(e_o0, e_o1, i0, i1, o0, o1, changed)
    if not ok:
        args = deep_realize((e_o0, e_o1, i0, i1, o0, o1, changed))
        with NoTracing():
            REPLAY.append(list(args))
    return ok
opts = AnalysisOptionSet(per_condition_timeout=60, report_all=True, analysis_kind=[AnalysisKind.PEP316])
t = time.time()
for msg in run_checkables(analyze_function(harness, opts)):
    print(msg.state, msg.message[:100])
print("time", time.time() - t, "replay", REPLAY[:2])
