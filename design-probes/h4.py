import logging, os, atexit, time
from gwf.core import Target, Graph, Status
from gwf.backends.base import BackendStatus
from gwf import scheduling, core
from gwf.scheduling import schedule

for m in (scheduling, core):
    m.logger = logging.getLogger("null"); m.logger.disabled = True

class FS:
    def exists(self, p): return True
    def changed_at(self, p): return 0

BS = list(BackendStatus)
N = 3
COUNT = [0]
T0 = time.time()
atexit.register(lambda: print("paths", COUNT[0], "secs", time.time() - T0))
edges = [[False, True, True], [False, False, True], [False, False, False]]
targets = []
for i in range(N):
    ins = ["/s%d" % i]
    for j in range(i):
        if edges[j][i]:
            ins.append("/o%d" % j)
    targets.append(Target(name="T%d" % i, inputs=ins, outputs=["/o%d" % i], options={}, working_dir="/w"))
G = Graph.from_targets(targets, FS())
EP = G.endpoints()
IDX = {t: i for i, t in enumerate(targets)}

def run(bstat, stale):
    subs = []
    def status_func(t):
        return bstat[IDX[t]]
    def submit(t, dependencies):
        subs.append((t.name, [d.name for d in dependencies]))
    scheduling.should_run = lambda t, fs, sh: stale[IDX[t]]
    res = schedule(EP, G, None, None, status_func, submit)
    return {t.name: s for t, s in res.items()}, subs

def oracle(bstat, stale):
    st = {}
    subs = {}
    for i in range(N):
        deps = [j for j in range(i) if edges[j][i]]
        pre = [j for j in deps if st[j] != Status.COMPLETED]
        b = bstat[i]
        if b == BackendStatus.SUBMITTED: st[i] = Status.SUBMITTED
        elif b == BackendStatus.RUNNING: st[i] = Status.RUNNING
        elif b == BackendStatus.FAILED: st[i] = Status.FAILED; subs[i] = pre
        elif b == BackendStatus.CANCELLED: st[i] = Status.CANCELLED; subs[i] = pre
        elif pre or stale[i]:
            st[i] = Status.SHOULDRUN; subs[i] = pre
        else:
            st[i] = Status.COMPLETED
    return st, subs

def pick(b):
    # map symbolic int to enum with explicit branching
    if b == 0: return BackendStatus.UNKNOWN
    if b == 1: return BackendStatus.SUBMITTED
    if b == 2: return BackendStatus.RUNNING
    if b == 3: return BackendStatus.COMPLETED
    if b == 4: return BackendStatus.FAILED
    return BackendStatus.CANCELLED

def check(b0: int, b1: int, b2: int, x0: bool, x1: bool, x2: bool) -> bool:
    """
    pre: 0 <= b0 <= 5 and 0 <= b1 <= 5 and 0 <= b2 <= 5
    post: _
    """
    COUNT[0] += 1
    bstat = [pick(b0), pick(b1), pick(b2)]; stale = [x0, x1, x2]
    got_st, got_subs = run(bstat, stale)
    exp_st, exp_subs = oracle(bstat, stale)
    if {("T%d" % i): s for i, s in exp_st.items()} != got_st:
        return False
    names = [n for n, _ in got_subs]
    if len(set(names)) != len(names): return False
    if set(names) != {"T%d" % i for i in exp_subs}: return False
    pos = {n: k for k, n in enumerate(names)}
    for n, deps in got_subs:
        i = int(n[1:])
        if sorted(deps) != sorted("T%d" % j for j in exp_subs[i]): return False
        for d in deps:
            if d in pos and pos[d] > pos[n]: return False
    return True
