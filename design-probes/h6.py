import logging
from typing import List, Optional
from gwf.core import Target
from gwf.backends import slurm, sge, lsf, base
from gwf.backends.slurm import SlurmOps, TARGET_DEFAULTS

CALLS = []
def fake_call(exe, *args, input=None):
    CALLS.append((exe, args, input))
    return "4242\n"
slurm.call = fake_call

def check_script(spec: str, wd: str, cores: int) -> bool:
    """
    pre: len(spec) <= 3 and 1 <= len(wd) <= 3
    post: _
    """
    t = Target(name="T", inputs=[], outputs=[], options={"cores": cores, "memory": "1g"}, working_dir="/w")
    t.working_dir = wd
    t.spec = spec
    ops = SlurmOps("/proj", "full", True, TARGET_DEFAULTS)
    s = ops.compile_script(t)
    tail = spec if spec.endswith("\n") else spec + "\n"
    if not s.endswith("set -e\n\n" + tail): return False
    lines = s.split("\n")
    if ("#SBATCH -c " + str(cores)) not in lines: return False
    return ("cd " + wd) in lines

def check_deps(a: str, b: str) -> bool:
    """
    pre: 1 <= len(a) <= 3 and 1 <= len(b) <= 3 and a.isdigit() and b.isdigit()
    post: _
    """
    del CALLS[:]
    t = Target(name="T", inputs=[], outputs=[], options={}, working_dir="/w")
    ops = SlurmOps("/proj", "full", True, TARGET_DEFAULTS)
    jid = ops.submit_target(t, [a, b])
    exe, args, inp = CALLS[0]
    depargs = [x for x in args if x.startswith("--dependency=")]
    if len(depargs) != 1: return False
    body = depargs[0][len("--dependency="):]
    if not body.startswith("afterok:"): return False
    ids = body[len("afterok:"):].split(":")
    return ids == [a, b] and jid == "4242"
