#!/bin/bash
# Developer script: run every quick check in /verif against /repo (writes evidence/), sequentially.
cd /verif
for P in C01 C02 C03 C04 C05 C06 C07 C08 C09 C10 C11 C12 C13 C14 C15 C16 C17 C18 C19 C20; do
  S=$(date +%s); ./check.py $P --tier quick > /tmp/mt/quick-$P.log 2>&1; RC=$?
  echo "$P exit=$RC wall=$(( $(date +%s) - S ))s $(tail -n 1 /tmp/mt/quick-$P.log | cut -c1-160)"
done
