#!/bin/bash
# usage: verify_seed.sh <seed-src-dir containing patch.diff + demo*.py> <dest-name e.g. C03-normpath>
# Confirms in a fresh scratch worktree of /repo HEAD: tests still 76 passed with the patch; demo fails with, passes without.
set -u
SRC=$1; NAME=$2
WT=/tmp/seedchk/$NAME
rm -rf $WT; mkdir -p /tmp/seedchk
git -C /repo worktree add -q --detach $WT HEAD || exit 2
DEMO=$(ls $SRC/demo*.py | head -1)
cd $WT
echo "== demo on original"; PYTHONPATH=$WT/src timeout 300 /venv/bin/python $DEMO >/tmp/seedchk/$NAME.orig.log 2>&1; RC0=$?; tail -2 /tmp/seedchk/$NAME.orig.log
git apply $SRC/patch.diff || { echo "PATCH DOES NOT APPLY"; git -C /repo worktree remove --force $WT; exit 2; }
echo "== tests with patch"; PYTHONPATH=$WT/src timeout 900 /venv/bin/python -m pytest -q -p no:cacheprovider --timeout=900 2>&1 | tail -1 | tee /tmp/seedchk/$NAME.tests.log
echo "== demo with patch"; PYTHONPATH=$WT/src timeout 300 /venv/bin/python $DEMO >/tmp/seedchk/$NAME.mut.log 2>&1; RC1=$?; tail -3 /tmp/seedchk/$NAME.mut.log
cd /; git -C /repo worktree remove --force $WT
echo "RESULT orig_rc=$RC0 mutant_rc=$RC1 tests=$(cat /tmp/seedchk/$NAME.tests.log)"
if [ $RC0 -eq 0 ] && [ $RC1 -ne 0 ] && grep -q "^76 passed" /tmp/seedchk/$NAME.tests.log; then
  mkdir -p /verif/seeded/$NAME; cp $SRC/patch.diff $DEMO /verif/seeded/$NAME/; [ -f $SRC/notes.md ] && cp $SRC/notes.md /verif/seeded/$NAME/
  echo "KEPT /verif/seeded/$NAME"
else echo "REJECTED"; fi
