#!/usr/bin/env python3
"""Developer script: run the quick check of the property each seeded change breaks against a scratch
worktree of /repo with that change applied (VF_REPO points the check at it), and record which
queries catch it.  usage: seed_matrix.py [--par 3] [--jobs 6] [--tier quick] [--tmax N] seed-name ...
Results are merged into /verif/seeded/RESULTS.json."""
import concurrent.futures
import json
import os
import re
import subprocess
import sys
import time

VERIF = os.environ.get("VF_VERIF", "/verif")


def run_seed(name, jobs, tier, tmax, prop_override=None):
    prop = prop_override or name[:3]
    wt = "/tmp/mrepo/%d-%s" % (os.getpid(), name)      # several matrix runs may be active
    subprocess.run(["git", "-C", "/repo", "worktree", "remove", "--force", wt], capture_output=True)
    os.makedirs("/tmp/mrepo", exist_ok=True)
    subprocess.run(["git", "-C", "/repo", "worktree", "add", "-q", "--detach", wt, "HEAD"], check=True)
    try:
        p = subprocess.run(["git", "-C", wt, "apply", os.path.join(VERIF, "seeded", name, "patch.diff")], capture_output=True, text=True)
        if p.returncode != 0:
            return {"seed": name, "property": prop, "error": "patch does not apply: " + p.stderr[:200]}
        env = dict(os.environ, VF_REPO=wt)
        env.pop("VF_BOOT", None)
        cmd = [os.path.join(VERIF, "check.py"), prop, "--tier", tier, "--jobs", str(jobs), "--noevidence"]
        if tmax:
            cmd += ["--tmax", str(tmax)]
        t0 = time.time()
        r = subprocess.run(cmd, cwd=VERIF, env=env, capture_output=True, text=True)
        out = r.stdout
        caught = sorted(set(re.findall(r"counterexample (\S+)", out)))
        first = [ln.strip()[:300] for ln in out.splitlines() if ln.startswith("  counterexample")][:2]
        return {"seed": name, "property": prop, "tier": tier, "exit": r.returncode, "caught_by": caught, "examples": first,
                "inconclusive": len([1 for ln in out.splitlines() if ln.startswith("INCONCLUSIVE")]), "wall_s": round(time.time() - t0)}
    finally:
        subprocess.run(["git", "-C", "/repo", "worktree", "remove", "--force", wt], capture_output=True)


def main():
    args = sys.argv[1:]
    par, jobs, tier, tmax, prop = 3, 6, "quick", None, None
    names = []
    i = 0
    while i < len(args):
        if args[i] == "--par":
            par = int(args[i + 1]); i += 2
        elif args[i] == "--jobs":
            jobs = int(args[i + 1]); i += 2
        elif args[i] == "--tier":
            tier = args[i + 1]; i += 2
        elif args[i] == "--tmax":
            tmax = args[i + 1]; i += 2
        elif args[i] == "--prop":
            prop = args[i + 1]; i += 2
        else:
            names.append(args[i]); i += 1
    res_path = os.path.join(VERIF, "seeded", "RESULTS.json")
    results = json.load(open(res_path)) if os.path.exists(res_path) else {}
    with concurrent.futures.ThreadPoolExecutor(max_workers=par) as ex:
        futs = {ex.submit(run_seed, n, jobs, tier, tmax, prop): n for n in names}
        for fu in concurrent.futures.as_completed(futs):
            r = fu.result()
            key = r["seed"] + ("@" + r["property"] if prop else "")
            print(json.dumps(r), flush=True)
            import fcntl
            with open(res_path + ".lock", "w") as lk:      # several matrix runs may be active
                fcntl.flock(lk, fcntl.LOCK_EX)
                results = json.load(open(res_path)) if os.path.exists(res_path) else {}
                results[key] = r
                json.dump(results, open(res_path, "w"), indent=1, sort_keys=True)


if __name__ == "__main__":
    main()
