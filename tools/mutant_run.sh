#!/bin/bash
# WARNING: patches /repo itself - never use while other checks are running (use tools/seed_matrix.py, which works on scratch worktrees).
# usage: mutant_run.sh <patch-file> <PROP> [extra check.py args...]
# Applies the patch to /repo, runs the check, restores /repo. Prints the check's verdict lines.
PATCH=$1; PROP=$2; shift 2
cd /repo && git diff --quiet || { echo "/repo is dirty"; exit 2; }
git -C /repo apply "$PATCH" || { echo "patch does not apply"; exit 2; }
cd /verif && ./check.py $PROP "$@" > /tmp/mutant_run.$$.log 2>&1; RC=$?
git -C /repo checkout -- . 
grep -E "^(VIOLATION|INCONCLUSIVE|OK|KNOWN-FINDING|  counterexample)" /tmp/mutant_run.$$.log | cut -c1-400 | head -12
echo "exit=$RC"; rm -f /tmp/mutant_run.$$.log
