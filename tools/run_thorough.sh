#!/bin/bash
# Developer script: run the thorough tier of the given properties one after the other (each uses all cores).
for P in "$@"; do
  echo "=== $P $(date +%T)"
  ./check.py $P --tier thorough > thorough-$P.log 2>&1
  echo "exit=$? $(tail -n 1 thorough-$P.log | cut -c1-200)"
done
