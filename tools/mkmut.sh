#!/bin/bash
# usage: mkmut.sh <seed-name> <file relative to /repo> <python-replace-old> <python-replace-new>
# Creates /verif/seeded/<seed-name>/patch.diff from a single textual replacement (must change the file).
NAME=$1; FILE=$2; OLD=$3; NEW=$4
cd /repo && git diff --quiet || { echo "/repo dirty"; exit 2; }
/venv/bin/python - "$FILE" "$OLD" "$NEW" <<'P'
import sys
f,old,new=sys.argv[1:4]
s=open(f).read()
assert s.count(old)>=1, "pattern not found: "+old
s=s.replace(old,new,1); open(f,'w').write(s)
P
[ $? -eq 0 ] || { git checkout -- .; exit 2; }
mkdir -p /verif/seeded/$NAME && git diff > /verif/seeded/$NAME/patch.diff
T=$(PYTHONPATH=/repo/src /venv/bin/python -m pytest -q -p no:cacheprovider 2>&1 | tail -1)
git checkout -- .
echo "$NAME: tests: $T"
