#!/usr/bin/env python3
"""Developer script: write THOROUGH.md from the log of a `vp run -- tools/run_thorough.sh ...` sweep.
usage: mkthorough.py /root/.vp/runs/N/log [more logs: later ones override per property]"""
import re
import subprocess
import sys


def main():
    rows = {}
    for path in sys.argv[1:]:
        cur = None
        for line in open(path):
            m = re.match(r"=== (C\d\d) (\S+)", line)
            if m:
                cur = m.group(1)
                continue
            m = re.match(r"exit=(\d+) (.*)", line)
            if m and cur:
                rest = m.group(2)
                mm = re.search(r"queries=(\d+) paths=(\d+) wall=(\d+)s", rest)
                rows[cur] = (m.group(1), mm.groups() if mm else ("?", "?", "?"), rest.strip()[:110], path)
    head = subprocess.run(["git", "-C", "/verif", "log", "--oneline", "-1"], capture_output=True, text=True).stdout.strip()
    with open("/verif/THOROUGH.md", "w") as f:
        f.write("# Thorough tiers: last end-to-end runs\n\nEach `./check.py Cnn --tier thorough` was run from a committed snapshot of /verif (`vp run -- tools/run_thorough.sh ...`) against /repo, "
                "one property after the other, each using all 16 cores.  (query, shard) pairs / symbolic paths / wall time:\n\n| Property | exit | pairs | paths | wall | log |\n|---|---|---|---|---|---|\n")
        total = 0
        for p in sorted(rows):
            ex, (qn, pn, wl), rest, path = rows[p]
            f.write("| %s | %s | %s | %s | %s s | %s |\n" % (p, ex, qn, pn, wl, path))
            if wl != "?":
                total += int(wl)
        f.write("\nSum of wall times: %d s (%.1f h).  /verif HEAD when this file was written: %s\n" % (total, total / 3600.0, head))
    print("THOROUGH.md: %d properties, %.1f h" % (len(rows), total / 3600.0))


if __name__ == "__main__":
    main()
