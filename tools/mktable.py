#!/verif/.venv/bin/python
"""Developer script: regenerate the table of DESIGN.md section 9.2a from vf/props/*.py (between the table header and the next heading)."""
import importlib
import os
import re
import sys

sys.path.insert(0, "/verif")
sys.path.insert(0, os.environ.get("VF_REPO", "/repo") + "/src")


def main():
    rows = []
    for k in range(1, 21):
        prop = "C%02d" % k
        mod = importlib.import_module("vf.props." + prop)
        for qu in mod.QUERIES:
            sh = qu["shards"]
            nq, nt = (len(sh["quick"]), len(sh["thorough"])) if isinstance(sh, dict) else (len(sh), len(sh))
            if nq == 0 and nt == 0:
                continue
            engine = {"smt": "z3 / cvc5 (E2)", "concrete": "concrete"}.get(qu.get("kind"), "CrossHair")
            bound = " ".join(str(qu.get("bound", "")).split()).replace("|", "/")
            rows.append("| %s | %s | %s | %d / %d | %s |" % (prop, qu["name"], engine, nq, nt, bound[:150]))
    path = "/verif/DESIGN.md"
    s = open(path).read()
    head = "| Property | Query | Engine | Shards q / t | Bound |\n|---|---|---|---|---|\n"
    i = s.index(head) + len(head)
    j = s.index("\n### 9.3", i)
    tail = s[i:j]
    # keep whatever prose follows the table
    m = re.search(r"\n\n", tail)
    rest = tail[m.start():] if m else "\n"
    s = s[:i] + "\n".join(rows) + rest + s[j:]
    open(path, "w").write(s)
    print("%d rows" % len(rows))


if __name__ == "__main__":
    main()
