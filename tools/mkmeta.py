#!/usr/bin/env python3
"""Developer script: write seeded/<id>/meta.json and seeded/MATRIX.md from RESULTS.json, notes.md and the table below."""
import json
import os
import re

SEEDED = "/verif/seeded"

OWN_NEEDS = {
    "C03-own-no-abspath": "a target with a relative working directory",
    "C03-own-endpoints-from-deps": "a target without dependencies that other targets depend on",
    "C03-own-abs-not-normalised": "an absolute path spelled with '/./', '//' or '/d/../' (reverts fix 42580a3)",
    "C04-own-cycle-first-only": "a cycle not reachable from the first defined target",
    "C04-own-unres-skip-last": "a missing source file used only by the last defined target",
    "C04-own-clean-before-check": "`gwf touch` on an ill-formed workflow (files touched before the graph is validated)",
    "C05-own-dryrun-skips-failed": "a target whose last job failed, previewed with run --dry-run",
    "C05-own-cleanlogs-in-dryrun": "a log of a removed target present while run --dry-run is used",
    "C05-own-summary-indexerror": "status -f summary with filters that select nothing (reverts fix e4379f9)",
    "C05-own-statusfilter-unfiltered": "status --endpoints together with name patterns",
    "C06-own-shouldrun-not-prereq": "a dependency submitted in the same run: the scheduler may finish the dependent first (solver picks f_child < f_parent)",
    "C06-own-failed-not-prereq": "a dependency whose earlier job failed and is resubmitted in the same run",
    "C06-own-ge": "an exact tie between an input's and an output's modification time",
    "C07-own-afterany": "a prerequisite job that fails (afterany releases the dependent)",
    "C07-own-comma": "two or more prerequisites (comma is not Slurm's id separator within one dependency type)",
    "C07-own-ended": "an LSF prerequisite that exits non-zero (ended() releases the dependent)",
    "C07-own-first": "a target with two or more incomplete direct dependencies",
    "C08-own-sacct-after-squeue": "accounting lagging behind the live queue for a tracked job",
    "C08-own-to-completed": "a job that hit its time limit (squeue/sacct TIMEOUT)",
    "C08-own-batch-slice": "more tracked ids than one sacct batch (batch size symbolic)",
    "C08-own-lsf-prov": "bjobs answering PROV (reverts part of fix d60515b)",
    "C08-own-sge-nostrip": "SGE: any second invocation after a submission (reverts fix 2a4338f)",
    "C09-own-nonatomic": "a kill inside the state-file write (reverts fix 7fa52f6)",
    "C09-own-hash-before-submit": "a submission rejected by the scheduler with spec hashing on",
    "C09-own-no-close-on-error": "a scheduler command failing after at least one accepted submission",
    "C09-own-garbage-accepted": "sbatch exit 0 with non-id output (reverts fix 2ca5a4c)",
    "C10-own-update-order": "a workflow/template/keyword option that differs from the backend default",
    "C10-own-none-kept": "an option explicitly set to None",
    "C10-own-sete-after": "any spec (set -e emitted after it)",
    "C10-own-swap-streams": "SGE: gwf logs after a run (stdout/stderr files swapped)",
    "C10-own-strip-spec": "a spec ending in blanks / several newlines",
    "C10-own-unquoted-cd": "LSF: a working directory with a blank or shell metacharacter (reverts part of fix 9f8fc84)",
    "C12-own-over-release": "a task skipped because its dependency failed, followed by two independent tasks on one core (reverts fix 1c1f9d8)",
    "C12-own-sem-plus-one": "more ready tasks than cores",
    "C13-own-no-generic-except": "a task whose working directory is missing or whose log cannot be written (reverts fix c583c6f)",
    "C13-own-first-completed": "a task with two dependencies of which one finishes first",
    "C15-own-protect-raw": "a protect entry spelled differently from the output ('./b', absolute, 'x/../b')",
    "C15-own-endpoint-include": "clean without --all (only endpoints get cleaned instead of only non-endpoints)",
    "C15-own-no-invalidate": "clean with spec hashing on",
    "C15-own-inputs-too": "a selected target whose input is another target's output",
    "C16-own-touch-before-deps": "a positive clock increment between successive touches",
    "C16-own-update-endpoints-only": "spec hashing on and a non-endpoint in the cone",
    "C16-own-touch-all": "gwf touch with named targets",
    "C17-own-raise": "a selected target that cannot be cancelled followed by one that can",
    "C17-own-cancel-graph": "gwf cancel with named targets",
    "C18-own-update-in-dryrun": "run --dry-run with spec hashing on",
    "C18-own-missing-record-unchanged": "spec hashing switched on for a project whose outputs already exist",
    "C18-own-no-invalidate": "clean with spec hashing on",
    "C19-own-revert-template-wd": "a template/map target and an invoking directory other than the workflow's (reverts fix 98c7ed8)",
    "C19-own-name-match": "a target name with a trailing newline (reverts fix c2870ea)",
    "C19-own-namer-ignores-idx": "map over more than three items with a string name",
    "C20-own-dump-merged": "any config set (defaults get written into the file)",
    "C20-own-backend-order": "-b flag and a configured backend that differ",
    "C20-own-unset-keyerror": "config unset of a key that only has a default (reverts fix 1e4d41a)",
    "C20-own-ns-prefix": "a config key sharing a prefix with backend.<name> (reverts fix 55a7a44)",
    "C20-own-verbose-ignored": "config set verbose ... without -v (reverts fix ab408d7)",
}


def needs_from_notes(path):
    if not os.path.exists(path):
        return ""
    txt = open(path).read()
    m = re.search(r"(?is)(needs?[^\n]*manifest[^\n]*\n(?:[-*].*\n|\s+.*\n){0,8})", txt)
    if m:
        return " ".join(m.group(1).split())[:600]
    return " ".join(txt.split())[:400]


def main():
    results = json.load(open(os.path.join(SEEDED, "RESULTS.json")))
    rows = []
    for name in sorted(os.listdir(SEEDED)):
        d = os.path.join(SEEDED, name)
        if not os.path.isdir(d) or not os.path.exists(os.path.join(d, "patch.diff")):
            continue
        prop = name[:3]
        origin = "written by an independent sub-agent that saw only the property text (round %s)" % name[-1] if "agent" in name else "written by hand (one- or two-line edit, Appendix B / reverted fix)"
        r = results.get(name, {})
        demo = [f for f in os.listdir(d) if f.startswith("demo")]
        meta = {
            "seed": name,
            "breaks_property": prop,
            "origin": origin,
            "needs_to_manifest": OWN_NEEDS.get(name) or needs_from_notes(os.path.join(d, "notes.md")),
            "confirmed": {
                "existing_tests": "76 passed with the change (same 23 pre-existing errors) in a scratch worktree of /repo HEAD",
                "demonstration": ("%s exits 0 on the unchanged tree and non-zero with the change (tools/verify_seed.sh)" % demo[0]) if demo else "no separate demonstration: the counterexample replay of the check is the demonstration",
            },
            "check_run": "tools/seed_matrix.py: ./check.py %s --tier quick against a scratch worktree with the patch applied (VF_REPO)" % prop,
            "check_exit": r.get("exit"),
            "caught_by_queries": r.get("caught_by"),
            "first_counterexample": (r.get("examples") or [None])[0],
        }
        json.dump(meta, open(os.path.join(d, "meta.json"), "w"), indent=1)
        rows.append((name, prop, r.get("exit"), ",".join(r.get("caught_by") or []), "agent" if "agent" in name else "own"))
    with open(os.path.join(SEEDED, "MATRIX.md"), "w") as f:
        f.write("# Seeded changes and the quick check of the property they break\n\n| seed | property | origin | check exit | caught by |\n|---|---|---|---|---|\n")
        for name, prop, ex, by, org in rows:
            f.write("| %s | %s | %s | %s | %s |\n" % (name, prop, org, ex, by or "-"))
        n = len(rows)
        caught = sum(1 for r in rows if r[2] == 1)
        f.write("\n%d seeds, %d with a recorded run of the property's whole quick check that exits 1 with a replayed counterexample; %d without such a run: "
                "the seeds of rounds 7 and 8 (agent7, agent8) were run against the single (query, shard) expected to catch them while the final thorough sweep occupied the machine "
                "- all but C12-agent8 are refuted there, see DESIGN.md 9.6 - and have no entry in RESULTS.json.\n" % (n, caught, n - caught))
    print("meta.json for %d seeds; MATRIX.md written" % len(rows))


if __name__ == "__main__":
    main()
