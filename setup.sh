#!/bin/sh
# Builds the overlay interpreter used by every check: python 3.12 of /venv (which has gwf's
# dependencies: click, attrs, click-plugins) + crosshair-tool/z3 from the offline wheelhouse.
# Idempotent; offline; writes only under /verif/.venv.
set -e
V=/verif/.venv
if [ -x "$V/bin/python" ] && "$V/bin/python" -c "import crosshair, z3, click, attrs" 2>/dev/null; then
  exit 0
fi
rm -rf "$V"
/venv/bin/python -m venv "$V"
SP=$("$V/bin/python" -c "import sysconfig;print(sysconfig.get_paths()['purelib'])")
echo "import site; site.addsitedir('/venv/lib/python3.12/site-packages')" > "$SP/_overlay.pth"
PIP_NO_INDEX=1 "$V/bin/python" -m pip install -q --no-index --find-links /opt/veriftools/wheels crosshair-tool z3-solver >/dev/null
"$V/bin/python" -c "import crosshair, z3, click, attrs; print('overlay ok', z3.get_version_string())"
