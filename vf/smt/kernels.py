"""E2: AST -> SMT kernels for two leaf functions where symbolic execution of Python is imprecise.

  name_language(): reads gwf.utils.is_valid_name from the current source with `ast`, extracts the
      regular expression and the re function used (match / fullmatch / search), translates both into
      the regular-expression theory (Python semantics of ^, $ and the match function included) and
      asks whether some string is accepted by exactly one of {implementation, specification}.
      Unbounded in the string length.
  namespace_prefix(): reads conf.FileConfig.get_namespace, extracts the prefix test and the slice
      arithmetic, and asks whether some (ns, key) pair is treated differently from the specification
      "key reaches the backend iff key = ns + '.' + rest, under the name rest".
Each query is decided by the z3 python binding (5.1) and cross-checked through SMT-LIB2 text with the
/usr/bin/z3 binary (4.8.12) and cvc5; a disagreement, an `unknown` or an `(error` is inconclusive.
"""
import ast
import inspect
import os
import subprocess
import tempfile
import time

import z3


class Unsupported(Exception):
    pass


# ---------------------------------------------------------------- Python regex -> z3 Re
# The pattern is parsed by the `re` module's own parser (re._parser), so the structure is the one the
# implementation uses.  Every node that consumes exactly one character (literal, class, category, dot)
# becomes a set of code points that is *computed with the real matching engine* under the pattern's flags
# (one compiled single-node pattern, asked about every code point up to MAXCP), so that flags such as
# IGNORECASE, ASCII or DOTALL need no model of their own.  Sequences, alternatives, groups and repeats
# are translated structurally; anchors are accepted at the two ends only.
MAXCP = 0x2FFFF        # largest character of the solvers' string theory


def _code_points(parser, compiler, state, node, flags):
    sub = parser.SubPattern(state, [node])
    try:
        pat = compiler.compile(sub, flags)
    except Exception as exc:         # pragma: no cover
        raise Unsupported("cannot compile a single-character node: %r" % (exc,))
    fm = pat.fullmatch
    return [cp for cp in range(MAXCP + 1) if not (0xD800 <= cp <= 0xDFFF) and fm(chr(cp)) is not None]


def _ranges(cps):
    out = []
    for cp in cps:
        if out and out[-1][1] == cp - 1:
            out[-1][1] = cp
        else:
            out.append([cp, cp])
    return out


def _ch(cp):
    return z3.StringVal(chr(cp)) if cp < 128 else z3.Unit(z3.CharFromBv(z3.BitVecVal(cp, 18))) if hasattr(z3, "CharFromBv") else z3.StringVal(chr(cp))


def _set_re(cps):
    rs = _ranges(cps)
    if not rs:
        return z3.Empty(z3.ReSort(z3.StringSort()))
    parts = [z3.Re(z3.StringVal(chr(a))) if a == b else z3.Range(z3.StringVal(chr(a)), z3.StringVal(chr(b))) for a, b in rs]
    return parts[0] if len(parts) == 1 else z3.Union(*parts)


def _seq_re(parser, compiler, state, nodes, flags, cache):
    C = parser
    parts = []
    for op, av in nodes:
        name = str(op)
        if name in ("LITERAL", "NOT_LITERAL", "IN", "ANY", "CATEGORY"):
            key = repr((name, av))
            if key not in cache:
                cache[key] = _code_points(parser, compiler, state, (op, av), flags)
            parts.append(_set_re(cache[key]))
        elif name in ("MAX_REPEAT", "MIN_REPEAT"):
            lo, hi, sub = av
            inner = _seq_re(parser, compiler, state, list(sub), flags, cache)
            if hi == C.MAXREPEAT:
                parts.append(z3.Star(inner) if lo == 0 else z3.Plus(inner) if lo == 1 else z3.Concat(z3.Loop(inner, lo, lo), z3.Star(inner)))
            elif (lo, hi) == (0, 1):
                parts.append(z3.Option(inner))
            else:
                parts.append(z3.Loop(inner, lo, hi))
        elif name == "SUBPATTERN":
            group, add_flags, del_flags, sub = av
            if add_flags or del_flags:
                raise Unsupported("group-local flags")
            parts.append(_seq_re(parser, compiler, state, list(sub), flags, cache))
        elif name == "BRANCH":
            alts = [_seq_re(parser, compiler, state, list(a), flags, cache) for a in av[1]]
            parts.append(alts[0] if len(alts) == 1 else z3.Union(*alts))
        else:
            raise Unsupported("regex construct " + name)
    if not parts:
        return z3.Re(z3.StringVal(""))
    return parts[0] if len(parts) == 1 else z3.Concat(*parts)


def parse_regex(pat, flags=0):
    """Returns (z3 Re for the body, anchored_start, dollar_at_end, info)."""
    import re
    parser, compiler = re._parser, re._compiler
    if flags & ~(re.IGNORECASE | re.ASCII | re.DOTALL | re.UNICODE | re.VERBOSE):
        raise Unsupported("flags %r" % (re.RegexFlag(flags),))       # MULTILINE changes what ^ and $ mean
    tree = parser.parse(pat, flags)
    fl = tree.state.flags
    if fl & re.MULTILINE or fl & re.LOCALE:
        raise Unsupported("inline flags %r" % (re.RegexFlag(fl),))
    nodes = list(tree)
    start = dollar = False
    if nodes and str(nodes[0][0]) == "AT" and str(nodes[0][1]) in ("AT_BEGINNING", "AT_BEGINNING_STRING"):
        start = True
        nodes = nodes[1:]
    endz = False
    if nodes and str(nodes[-1][0]) == "AT" and str(nodes[-1][1]) in ("AT_END", "AT_END_STRING"):
        dollar = str(nodes[-1][1]) == "AT_END"
        endz = not dollar
        nodes = nodes[:-1]
    if any(str(op) == "AT" for op, av in nodes):
        raise Unsupported("inner anchor")
    cache = {}
    body = _seq_re(parser, compiler, tree.state, nodes, fl, cache)
    info = {"flags": str(re.RegexFlag(fl)), "single_character_sets": {k: len(v) for k, v in cache.items()}}
    return body, start, dollar, endz, info


def python_re_language(fn, pat, flags=0):
    """Language accepted by `re.<fn>(pat, s, flags) is not None` for the supported subset."""
    body, start, dollar, endz, info = parse_regex(pat, flags)
    anychar = z3.AllChar(z3.ReSort(z3.StringSort()))
    sigma_star = z3.Star(anychar)
    nl = z3.Re(z3.StringVal("\n"))
    tail_ok = z3.Union(body, z3.Concat(body, nl)) if dollar else body      # $ matches at the end or before a final newline
    if fn == "fullmatch":
        return (tail_ok if dollar else body), info
    if fn == "match" or (fn == "search" and start):
        if dollar or endz:
            return tail_ok, info
        return z3.Concat(body, sigma_star), info
    if fn == "search":
        if dollar or endz:
            return z3.Concat(sigma_star, tail_ok), info
        return z3.Concat(sigma_star, body, sigma_star), info
    raise Unsupported("re." + fn)


def _flags_value(node):
    import re
    if node is None:
        return 0
    if isinstance(node, ast.Constant) and isinstance(node.value, int):
        return node.value
    if isinstance(node, ast.Attribute) and isinstance(node.value, ast.Name) and node.value.id == "re" and isinstance(getattr(re, node.attr, None), re.RegexFlag):
        return int(getattr(re, node.attr))
    if isinstance(node, ast.BinOp) and isinstance(node.op, ast.BitOr):
        return _flags_value(node.left) | _flags_value(node.right)
    raise Unsupported("flags expression " + ast.dump(node))


def _kw(call, name):
    for k in call.keywords:
        if k.arg == name:
            return k.value
    return None


def extract_is_valid_name():
    """Accepted shapes:  re.<fn>(<constant pattern>, candidate[, flags])   and
    <NAME>.<fn>(candidate) with a module-level  NAME = re.compile(<constant pattern>[, flags]).
    Returns (fn, pattern, flags, source)."""
    from gwf import utils
    src = inspect.getsource(utils.is_valid_name)
    tree = ast.parse(src)
    params = [a.arg for a in tree.body[0].args.args]
    calls = [n for n in ast.walk(tree) if isinstance(n, ast.Call)]
    rets = [n for n in ast.walk(tree) if isinstance(n, ast.Return)]
    if len(rets) != 1 or len(tree.body[0].body) > 2:
        raise Unsupported("is_valid_name is no longer a single return of a regular-expression test")
    r = rets[0].value
    ok_shape = isinstance(r, ast.Compare) and len(r.ops) == 1 and isinstance(r.ops[0], ast.IsNot) and isinstance(r.comparators[0], ast.Constant) and r.comparators[0].value is None
    ok_shape = ok_shape or (isinstance(r, ast.Call) and isinstance(r.func, ast.Name) and r.func.id == "bool")
    if not ok_shape:
        raise Unsupported("the result is not `<match> is not None` / bool(<match>)")
    for node in calls:
        f = node.func
        if not (isinstance(f, ast.Attribute) and f.attr in ("match", "fullmatch", "search") and isinstance(f.value, ast.Name)):
            continue
        if f.value.id == "re":
            if len(node.args) >= 2 and isinstance(node.args[0], ast.Constant) and isinstance(node.args[0].value, str) and isinstance(node.args[1], ast.Name) and node.args[1].id == params[0]:
                fl = node.args[2] if len(node.args) > 2 else _kw(node, "flags")
                return f.attr, node.args[0].value, _flags_value(fl), src
        else:
            if not (len(node.args) == 1 and isinstance(node.args[0], ast.Name) and node.args[0].id == params[0]):
                continue
            msrc = inspect.getsource(utils)
            for st in ast.parse(msrc).body:
                if isinstance(st, ast.Assign) and len(st.targets) == 1 and isinstance(st.targets[0], ast.Name) and st.targets[0].id == f.value.id:
                    c = st.value
                    if (isinstance(c, ast.Call) and isinstance(c.func, ast.Attribute) and c.func.attr == "compile" and isinstance(c.func.value, ast.Name) and c.func.value.id == "re"
                            and c.args and isinstance(c.args[0], ast.Constant) and isinstance(c.args[0].value, str)):
                        fl = c.args[1] if len(c.args) > 1 else _kw(c, "flags")
                        return f.attr, c.args[0].value, _flags_value(fl), src + "\n" + ast.get_source_segment(msrc, st)
    raise Unsupported("is_valid_name no longer has the shape re.<fn>(<constant pattern>, candidate) or <compiled constant pattern>.<fn>(candidate)")


def spec_name_language():
    """[A-Za-z_][A-Za-z0-9._]*  (ASCII letters, digits, dot, underscore; not starting with a digit or a dot), built
    from explicit code point sets in the same canonical form as the translated implementation."""
    letters = list(range(ord("A"), ord("Z") + 1)) + list(range(ord("a"), ord("z") + 1)) + [ord("_")]
    rest = letters + list(range(ord("0"), ord("9") + 1)) + [ord(".")]
    return z3.Concat(_set_re(sorted(letters)), z3.Star(_set_re(sorted(rest))))


def _cross_check(smt2_text, timeout=60):
    """Run the same text through the z3 binary and cvc5; returns {solver: answer}."""
    out = {}
    with tempfile.NamedTemporaryFile("w", suffix=".smt2", delete=False) as f:
        f.write(smt2_text)
        path = f.name
    try:
        for name, cmd in (("z3-4.8.12", ["/usr/bin/z3", "-T:%d" % timeout, path]), ("cvc5", ["cvc5", "--strings-exp", "--tlimit=%d" % (timeout * 1000), path])):
            try:
                p = subprocess.run(cmd, capture_output=True, text=True, timeout=timeout + 10)
                txt = (p.stdout + p.stderr).strip()
                if "(error" in txt or "error" in txt.lower().split("\n")[0:1]:
                    out[name] = "error: " + txt[:120]
                else:
                    out[name] = txt.split("\n")[0].strip() if txt else "no output"
            except Exception as exc:
                out[name] = "failed: %r" % (exc,)
    finally:
        os.unlink(path)
    return out


def decide(solver, label):
    t0 = time.time()
    r = str(solver.check())
    res = {"query": label, "z3py": r, "solver_s": round(time.time() - t0, 3)}
    text = "(set-logic ALL)\n" + solver.to_smt2()
    res["cross"] = _cross_check(text)
    return res, (solver.model() if r == "sat" else None)


def name_language():
    """Returns dict(verdict, detail, cex)."""
    try:
        fn, pat, flags, src = extract_is_valid_name()
        impl, info = python_re_language(fn, pat, flags)
    except Unsupported as exc:
        return {"verdict": "UNKNOWN", "detail": "translator: %s" % exc}
    s = z3.String("name")
    spec = spec_name_language()
    # two inclusion queries (each is easier for the solvers than one xor)
    details = []
    for label, cond in (("accepted by is_valid_name but not identifier-like", z3.And(z3.InRe(s, impl), z3.Not(z3.InRe(s, spec)))),
                        ("identifier-like but rejected by is_valid_name", z3.And(z3.InRe(s, spec), z3.Not(z3.InRe(s, impl))))):
        solver = z3.Solver()
        solver.set("timeout", 60000)
        solver.add(cond)
        res, model = decide(solver, "exists name %s   (re.%s(%r, flags=%s); spec [A-Za-z_][A-Za-z0-9._]*)" % (label, fn, pat, info["flags"]))
        res["translation"] = info
        details.append(res)
        answers = [res["z3py"]] + [v for v in res["cross"].values()]
        if res["z3py"] == "sat":
            name = model[s].as_string() if model[s] is not None else ""
            name = bytes(name, "utf-8").decode("unicode_escape") if "\\u{" not in name else _unescape(name)
            return {"verdict": "REFUTED", "detail": res, "cex": [name]}
        if not (res["z3py"] == "unsat" and all(a == "unsat" for a in answers)):
            return {"verdict": "UNKNOWN", "detail": res}
    return {"verdict": "CONFIRMED", "detail": details}


def _unescape(s):
    import re as _re
    return _re.sub(r"\\u\{([0-9a-fA-F]+)\}", lambda m: chr(int(m.group(1), 16)), s)


# ---------------------------------------------------------------- get_namespace
def extract_get_namespace():
    """Expected shape:   for k, v in self.items():  if k.startswith(<expr of ns>):  new_key = k[<expr>:] ; res[new_key] = v
    Returns (prefix_expr_ast, slice_lower_ast)."""
    from gwf import conf
    src = inspect.getsource(conf.FileConfig.get_namespace)
    import textwrap
    tree = ast.parse(textwrap.dedent(src))
    prefix = lower = None
    for node in ast.walk(tree):
        if isinstance(node, ast.If) and isinstance(node.test, ast.Call) and isinstance(node.test.func, ast.Attribute) and node.test.func.attr == "startswith":
            prefix = node.test.args[0]
            for sub in ast.walk(node):
                if isinstance(sub, ast.Subscript) and isinstance(sub.slice, ast.Slice) and sub.slice.upper is None and sub.slice.lower is not None:
                    lower = sub.slice.lower
    if prefix is None or lower is None:
        raise Unsupported("get_namespace no longer has the shape startswith(...) / k[...:]")
    return prefix, lower


def _str_expr(node, ns):
    if isinstance(node, ast.Name) and node.id == "ns":
        return ns
    if isinstance(node, ast.Constant) and isinstance(node.value, str):
        return z3.StringVal(node.value)
    if isinstance(node, ast.BinOp) and isinstance(node.op, ast.Add):
        return z3.Concat(_str_expr(node.left, ns), _str_expr(node.right, ns))
    raise Unsupported("string expression " + ast.dump(node))


def _int_expr(node, ns):
    if isinstance(node, ast.Constant) and isinstance(node.value, int):
        return z3.IntVal(node.value)
    if isinstance(node, ast.Call) and isinstance(node.func, ast.Name) and node.func.id == "len":
        return z3.Length(_str_expr(node.args[0], ns))
    if isinstance(node, ast.BinOp) and isinstance(node.op, (ast.Add, ast.Sub)):
        a, b = _int_expr(node.left, ns), _int_expr(node.right, ns)
        return a + b if isinstance(node.op, ast.Add) else a - b
    raise Unsupported("int expression " + ast.dump(node))


def namespace_prefix():
    try:
        prefix_ast, lower_ast = extract_get_namespace()
        ns, key = z3.String("ns"), z3.String("key")
        impl_in = z3.PrefixOf(_str_expr(prefix_ast, ns), key)
        lo = _int_expr(lower_ast, ns)
        impl_name = z3.SubString(key, lo, z3.Length(key) - lo)      # Python k[lo:] for 0 <= lo
    except Unsupported as exc:
        return {"verdict": "UNKNOWN", "detail": "translator: %s" % exc}
    rest = z3.String("rest")
    spec_in = z3.PrefixOf(z3.Concat(ns, z3.StringVal(".")), key)
    spec_name = z3.SubString(key, z3.Length(ns) + 1, z3.Length(key) - z3.Length(ns) - 1)
    solver = z3.Solver()
    solver.set("timeout", 60000)
    # ns is a backend namespace: non-empty, no dot at the end
    solver.add(z3.Length(ns) >= 1, z3.Length(ns) <= 24, z3.Length(key) <= 40)
    solver.add(z3.Or(z3.Xor(impl_in, spec_in), z3.And(impl_in, spec_in, impl_name != spec_name)))
    res, model = decide(solver, "exists ns, key: get_namespace treats key differently from 'key = ns + \".\" + rest -> rest'")
    answers = [res["z3py"]] + [v for v in res["cross"].values()]
    if res["z3py"] == "sat":
        return {"verdict": "REFUTED", "detail": res, "cex": [_unescape(model[ns].as_string()), _unescape(model[key].as_string())]}
    if res["z3py"] == "unsat" and all(a == "unsat" for a in answers):
        return {"verdict": "CONFIRMED", "detail": res}
    return {"verdict": "UNKNOWN", "detail": res}
