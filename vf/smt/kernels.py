"""E2: AST -> SMT kernels for two leaf functions where symbolic execution of Python is imprecise.

  name_language(): reads gwf.utils.is_valid_name from the current source with `ast`, extracts the
      regular expression and the re function used (match / fullmatch / search), translates both into
      the regular-expression theory (Python semantics of ^, $ and the match function included) and
      asks whether some string is accepted by exactly one of {implementation, specification}.
      Unbounded in the string length.
  namespace_prefix(): reads conf.FileConfig.get_namespace, extracts the prefix test and the slice
      arithmetic, and asks whether some (ns, key) pair is treated differently from the specification
      "key reaches the backend iff key = ns + '.' + rest, under the name rest".
Each query is decided by the z3 python binding (5.1) and cross-checked through SMT-LIB2 text with the
/usr/bin/z3 binary (4.8.12) and cvc5; a disagreement, an `unknown` or an `(error` is inconclusive.
"""
import ast
import inspect
import os
import subprocess
import tempfile
import time

import z3


class Unsupported(Exception):
    pass


# ---------------------------------------------------------------- tiny regex parser -> z3 Re
def _cls_re(items, negate):
    parts = []
    for it in items:
        if isinstance(it, tuple):
            parts.append(z3.Range(it[0], it[1]))
        else:
            parts.append(z3.Re(z3.StringVal(it)))
    r = parts[0] if len(parts) == 1 else z3.Union(*parts)
    if negate:
        raise Unsupported("negated class")
    return r


def parse_regex(pat):
    """Returns (z3 Re for the body, anchored_start, dollar_at_end).  Supports literals, escapes,
    character classes with ranges, and the quantifiers * + ?."""
    i = 0
    n = len(pat)
    start = False
    dollar = False
    seq = []
    if pat.startswith("^") or pat.startswith("\\A"):
        start = True
        i = 1 if pat.startswith("^") else 2
    while i < n:
        c = pat[i]
        atom = None
        if c == "$" and i == n - 1:
            dollar = True
            i += 1
            continue
        if c == "\\" and pat[i:i + 2] == "\\Z" and i == n - 2:
            i += 2
            continue
        if c == "[":
            j = i + 1
            neg = False
            if pat[j] == "^":
                neg = True
                j += 1
            items = []
            while pat[j] != "]":
                a = pat[j]
                if a == "\\":
                    a = pat[j + 1]
                    j += 1
                if pat[j + 1] == "-" and pat[j + 2] != "]":
                    items.append((a, pat[j + 2]))
                    j += 3
                else:
                    items.append(a)
                    j += 1
            atom = _cls_re(items, neg)
            i = j + 1
        elif c == "\\":
            d = pat[i + 1]
            if d == "d":
                atom = z3.Range("0", "9")
            elif d == "w":
                atom = z3.Union(z3.Range("a", "z"), z3.Range("A", "Z"), z3.Range("0", "9"), z3.Re(z3.StringVal("_")))
            elif d in ".[]()*+?^$\\{}|-":
                atom = z3.Re(z3.StringVal(d))
            else:
                raise Unsupported("escape \\" + d)
            i += 2
        elif c in "()|{}":
            raise Unsupported("construct " + c)
        elif c == ".":
            raise Unsupported("dot")
        elif c in "^$":
            raise Unsupported("inner anchor")
        else:
            atom = z3.Re(z3.StringVal(c))
            i += 1
        if i < n and pat[i] in "*+?":
            atom = {"*": z3.Star, "+": z3.Plus, "?": z3.Option}[pat[i]](atom)
            i += 1
        seq.append(atom)
    body = seq[0] if len(seq) == 1 else z3.Concat(*seq)
    return body, start, dollar


def python_re_language(fn, pat):
    """Language accepted by `re.<fn>(pat, s) is not None` for the supported subset."""
    body, start, dollar = parse_regex(pat)
    anychar = z3.AllChar(z3.ReSort(z3.StringSort()))
    sigma_star = z3.Star(anychar)
    nl = z3.Re(z3.StringVal("\n"))
    if fn == "fullmatch":
        return body
    if fn == "match" or (fn == "search" and start):
        if dollar:
            return z3.Union(body, z3.Concat(body, nl))      # $ matches at the end or before a final newline
        return z3.Concat(body, sigma_star)
    if fn == "search":
        if dollar:
            return z3.Concat(sigma_star, z3.Union(body, z3.Concat(body, nl)))
        return z3.Concat(sigma_star, body, sigma_star)
    raise Unsupported("re." + fn)


def extract_is_valid_name():
    from gwf import utils
    src = inspect.getsource(utils.is_valid_name)
    tree = ast.parse(src)
    for node in ast.walk(tree):
        if isinstance(node, ast.Call) and isinstance(node.func, ast.Attribute) and isinstance(node.func.value, ast.Name) and node.func.value.id == "re":
            if len(node.args) == 2 and isinstance(node.args[0], ast.Constant) and isinstance(node.args[0].value, str):
                return node.func.attr, node.args[0].value, src
    raise Unsupported("is_valid_name no longer has the shape re.<fn>(<constant pattern>, candidate)")


def spec_name_language():
    first = z3.Union(z3.Range("a", "z"), z3.Range("A", "Z"), z3.Re(z3.StringVal("_")))
    rest = z3.Union(z3.Range("a", "z"), z3.Range("A", "Z"), z3.Range("0", "9"), z3.Re(z3.StringVal(".")), z3.Re(z3.StringVal("_")))
    return z3.Concat(first, z3.Star(rest))


def _cross_check(smt2_text, timeout=60):
    """Run the same text through the z3 binary and cvc5; returns {solver: answer}."""
    out = {}
    with tempfile.NamedTemporaryFile("w", suffix=".smt2", delete=False) as f:
        f.write(smt2_text)
        path = f.name
    try:
        for name, cmd in (("z3-4.8.12", ["/usr/bin/z3", "-T:%d" % timeout, path]), ("cvc5", ["cvc5", "--strings-exp", "--tlimit=%d" % (timeout * 1000), path])):
            try:
                p = subprocess.run(cmd, capture_output=True, text=True, timeout=timeout + 10)
                txt = (p.stdout + p.stderr).strip()
                if "(error" in txt or "error" in txt.lower().split("\n")[0:1]:
                    out[name] = "error: " + txt[:120]
                else:
                    out[name] = txt.split("\n")[0].strip() if txt else "no output"
            except Exception as exc:
                out[name] = "failed: %r" % (exc,)
    finally:
        os.unlink(path)
    return out


def decide(solver, label):
    t0 = time.time()
    r = str(solver.check())
    res = {"query": label, "z3py": r, "solver_s": round(time.time() - t0, 3)}
    text = "(set-logic ALL)\n" + solver.to_smt2()
    res["cross"] = _cross_check(text)
    return res, (solver.model() if r == "sat" else None)


def name_language():
    """Returns dict(verdict, detail, cex)."""
    try:
        fn, pat, src = extract_is_valid_name()
        impl = python_re_language(fn, pat)
    except Unsupported as exc:
        return {"verdict": "UNKNOWN", "detail": "translator: %s" % exc}
    s = z3.String("name")
    solver = z3.Solver()
    solver.set("timeout", 60000)
    solver.add(z3.Xor(z3.InRe(s, impl), z3.InRe(s, spec_name_language())))
    res, model = decide(solver, "exists name: is_valid_name(name) xor name in [A-Za-z_][A-Za-z0-9._]*   (re.%s(%r))" % (fn, pat))
    answers = [res["z3py"]] + [v for v in res["cross"].values()]
    if res["z3py"] == "sat":
        name = model[s].as_string() if model[s] is not None else ""
        name = bytes(name, "utf-8").decode("unicode_escape") if "\\u{" not in name else _unescape(name)
        return {"verdict": "REFUTED", "detail": res, "cex": [name]}
    if res["z3py"] == "unsat" and all(a == "unsat" for a in answers):
        return {"verdict": "CONFIRMED", "detail": res}
    return {"verdict": "UNKNOWN", "detail": res}


def _unescape(s):
    import re as _re
    return _re.sub(r"\\u\{([0-9a-fA-F]+)\}", lambda m: chr(int(m.group(1), 16)), s)


# ---------------------------------------------------------------- get_namespace
def extract_get_namespace():
    """Expected shape:   for k, v in self.items():  if k.startswith(<expr of ns>):  new_key = k[<expr>:] ; res[new_key] = v
    Returns (prefix_expr_ast, slice_lower_ast)."""
    from gwf import conf
    src = inspect.getsource(conf.FileConfig.get_namespace)
    import textwrap
    tree = ast.parse(textwrap.dedent(src))
    prefix = lower = None
    for node in ast.walk(tree):
        if isinstance(node, ast.If) and isinstance(node.test, ast.Call) and isinstance(node.test.func, ast.Attribute) and node.test.func.attr == "startswith":
            prefix = node.test.args[0]
            for sub in ast.walk(node):
                if isinstance(sub, ast.Subscript) and isinstance(sub.slice, ast.Slice) and sub.slice.upper is None and sub.slice.lower is not None:
                    lower = sub.slice.lower
    if prefix is None or lower is None:
        raise Unsupported("get_namespace no longer has the shape startswith(...) / k[...:]")
    return prefix, lower


def _str_expr(node, ns):
    if isinstance(node, ast.Name) and node.id == "ns":
        return ns
    if isinstance(node, ast.Constant) and isinstance(node.value, str):
        return z3.StringVal(node.value)
    if isinstance(node, ast.BinOp) and isinstance(node.op, ast.Add):
        return z3.Concat(_str_expr(node.left, ns), _str_expr(node.right, ns))
    raise Unsupported("string expression " + ast.dump(node))


def _int_expr(node, ns):
    if isinstance(node, ast.Constant) and isinstance(node.value, int):
        return z3.IntVal(node.value)
    if isinstance(node, ast.Call) and isinstance(node.func, ast.Name) and node.func.id == "len":
        return z3.Length(_str_expr(node.args[0], ns))
    if isinstance(node, ast.BinOp) and isinstance(node.op, (ast.Add, ast.Sub)):
        a, b = _int_expr(node.left, ns), _int_expr(node.right, ns)
        return a + b if isinstance(node.op, ast.Add) else a - b
    raise Unsupported("int expression " + ast.dump(node))


def namespace_prefix():
    try:
        prefix_ast, lower_ast = extract_get_namespace()
        ns, key = z3.String("ns"), z3.String("key")
        impl_in = z3.PrefixOf(_str_expr(prefix_ast, ns), key)
        lo = _int_expr(lower_ast, ns)
        impl_name = z3.SubString(key, lo, z3.Length(key) - lo)      # Python k[lo:] for 0 <= lo
    except Unsupported as exc:
        return {"verdict": "UNKNOWN", "detail": "translator: %s" % exc}
    rest = z3.String("rest")
    spec_in = z3.PrefixOf(z3.Concat(ns, z3.StringVal(".")), key)
    spec_name = z3.SubString(key, z3.Length(ns) + 1, z3.Length(key) - z3.Length(ns) - 1)
    solver = z3.Solver()
    solver.set("timeout", 60000)
    # ns is a backend namespace: non-empty, no dot at the end
    solver.add(z3.Length(ns) >= 1, z3.Length(ns) <= 24, z3.Length(key) <= 40)
    solver.add(z3.Or(z3.Xor(impl_in, spec_in), z3.And(impl_in, spec_in, impl_name != spec_name)))
    res, model = decide(solver, "exists ns, key: get_namespace treats key differently from 'key = ns + \".\" + rest -> rest'")
    answers = [res["z3py"]] + [v for v in res["cross"].values()]
    if res["z3py"] == "sat":
        return {"verdict": "REFUTED", "detail": res, "cex": [_unescape(model[ns].as_string()), _unescape(model[key].as_string())]}
    if res["z3py"] == "unsat" and all(a == "unsat" for a in answers):
        return {"verdict": "CONFIRMED", "detail": res}
    return {"verdict": "UNKNOWN", "detail": res}
