"""Run with the tooling interpreter (python3-vt, cvc5 1.4 wheel): decide one SMT-LIB2 file, print the answer."""
import sys

import cvc5


def main():
    path, tlimit = sys.argv[1], sys.argv[2]
    tm = cvc5.TermManager() if hasattr(cvc5, "TermManager") else None
    slv = cvc5.Solver(tm) if tm is not None else cvc5.Solver()
    slv.setOption("strings-exp", "true")
    slv.setOption("tlimit-per", tlimit)
    parser = cvc5.InputParser(slv)
    parser.setFileInput(cvc5.InputLanguage.SMT_LIB_2_6, path)
    sm = parser.getSymbolManager()
    while True:
        cmd = parser.nextCommand()
        if cmd.isNull():
            break
        out = cmd.invoke(slv, sm)
        if out.strip():
            print(out.strip())


main()
