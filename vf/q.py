"""Query-side helpers: every query of every property runs its body through `run`.

A *query* is a function with typed (symbolic) arguments and the PEP316 contract
`post: _ == ""` whose body is `return q.run(_body, (args...))`.  `_body` calls real gwf
code and an oracle and returns
    ""        the comparison was reached and the real code agrees with the oracle,
    q.SKIP    an assumption of the query does not hold for these arguments,
    "text"    disagreement (the text says what).
`run` counts paths, turns unexpected exceptions of the real code into disagreements,
captures the concrete counterexample, implements the vacuity twin and takes solver
models of confirmed paths as samples (without adding constraints to the path).
"""
import json
import os
import traceback

SKIP = None
REACHED = "REACHED(vacuity twin)"

SHARD = {}          # concrete outer parameters of the running shard (set by runq)
EXCLUDE = set()     # ids of active known findings (their region is skipped)
TWIN = False        # vacuity-twin mode
CONCRETE = True     # False while CrossHair traces

STATS = {"paths": 0, "reached": 0, "skipped": 0, "choices": 0, "failed": 0}
CEX = []            # [{"args": [...], "msg": "..."}]
SAMPLES = []        # [{"args": [...]}] solver models of confirmed paths
SAMPLE_FIRST = 6
SAMPLE_EVERY = 97
SAMPLE_MAX = 24
EXPECTED_EXC = ()   # exception classes that a body may let escape as SKIP (none by default)


class HarnessError(BaseException):
    """A bug of the verification harness itself (no gwf frame on the stack): never a violation.
    BaseException so that query bodies, which catch Exception around gwf calls, cannot swallow it."""


def excluded(finding_id):
    return finding_id in EXCLUDE


class _Null:
    def __enter__(self):
        return self

    def __exit__(self, *a):
        return False


def notrace():
    """Run a block untraced.  Only for code that handles concrete values exclusively (then the
    untraced execution is exact and merely faster)."""
    if CONCRETE:
        return _Null()
    from crosshair.tracers import NoTracing
    return NoTracing()


def _space():
    try:
        from crosshair.statespace import context_statespace
        return context_statespace()
    except Exception:
        return None


def _model_values(args):
    """Evaluate the arguments in a model of the current path condition without
    constraining the path (deep_realize would fork the search tree)."""
    from crosshair.tracers import NoTracing
    with NoTracing():
        space = _space()
        if space is None:
            return None
        import z3
        try:
            if str(space.solver.check()) != "sat":
                return None
            model = space.solver.model()
        except Exception:
            return None
        out = []
        for a in args:
            var = getattr(a, "var", None)
            if var is not None and isinstance(var, z3.ExprRef):
                try:
                    v = model.eval(var, model_completion=True)
                    if z3.is_int_value(v):
                        out.append(v.as_long())
                    elif z3.is_true(v):
                        out.append(True)
                    elif z3.is_false(v):
                        out.append(False)
                    else:
                        return None
                except Exception:
                    return None
            elif type(a) in (int, bool, str, type(None)):
                out.append(a)
            else:
                return None      # symbolic strings etc.: no cheap model extraction
        return out


def run(body, args):
    if CONCRETE:
        return _run_concrete(body, args)
    from crosshair.tracers import NoTracing
    with NoTracing():
        STATS["paths"] += 1
    try:
        r = body(*args)
    except Exception as exc:  # never BaseException: CrossHair steers with those
        with NoTracing():
            tb = traceback.extract_tb(exc.__traceback__)
            if not any("/gwf/" in fr.filename for fr in tb):
                raise HarnessError("exception outside gwf code: %s: %s at %s" % (type(exc).__name__, exc, ["%s:%d" % (os.path.basename(fr.filename), fr.lineno) for fr in tb][-2:])) from exc
            where = ""
            for fr in reversed(tb):
                if "/gwf/" in fr.filename or "/vf/" in fr.filename:
                    where = "%s:%d" % (os.path.basename(fr.filename), fr.lineno)
                    break
            name = type(exc).__name__
        r = "unexpected exception " + name + " at " + where
    if r is None:
        with NoTracing():
            STATS["skipped"] += 1
        return ""
    if r == "":
        with NoTracing():
            STATS["reached"] += 1
            sp = _space()
            if sp is not None:
                STATS["choices"] += len(sp.choices_made)
            n = STATS["reached"]
            want = (n <= SAMPLE_FIRST or n % SAMPLE_EVERY == 0) and len(SAMPLES) < SAMPLE_MAX
        if want and not TWIN:
            vals = _model_values(args)
            with NoTracing():
                if vals is not None:
                    SAMPLES.append({"args": vals})
        if TWIN:
            from crosshair.core import deep_realize
            real_args = deep_realize(tuple(args))
            with NoTracing():
                CEX.append({"args": _jsonable(list(real_args)), "msg": REACHED})
            return REACHED
        return ""
    # disagreement: capture the counterexample (the search ends here anyway)
    from crosshair.core import deep_realize
    real_args = deep_realize(tuple(args))
    msg = deep_realize(r)
    with NoTracing():
        STATS["failed"] += 1
        CEX.append({"args": _jsonable(list(real_args)), "msg": str(msg)})
    return r


def _run_concrete(body, args):
    STATS["paths"] += 1
    try:
        r = body(*args)
    except Exception as exc:
        tb = traceback.extract_tb(exc.__traceback__)
        if not any("/gwf/" in fr.filename for fr in tb):
            raise HarnessError("exception outside gwf code: %s: %s" % (type(exc).__name__, exc)) from exc
        where = ""
        for fr in reversed(tb):
            if "/gwf/" in fr.filename or "/vf/" in fr.filename:
                where = "%s:%d" % (os.path.basename(fr.filename), fr.lineno)
                break
        r = "unexpected exception " + type(exc).__name__ + " at " + where + ": " + str(exc)[:200]
    if r is None:
        STATS["skipped"] += 1
        return ""
    if r == "":
        STATS["reached"] += 1
        return REACHED if TWIN else ""
    STATS["failed"] += 1
    return r


def _jsonable(x):
    try:
        json.dumps(x)
        return x
    except TypeError:
        if isinstance(x, (list, tuple)):
            return [_jsonable(i) for i in x]
        if isinstance(x, dict):
            return {str(k): _jsonable(v) for k, v in x.items()}
        return repr(x)


def pick(options, sel):
    """Selector: return options[sel] by an explicit comparison chain so that the
    solver, not Python's indexing of a concrete list by a realised int, decides."""
    for i in range(len(options)):
        if sel == i:
            return options[i]
    return options[-1]


def in_range(sel, n):
    return 0 <= sel and sel < n
