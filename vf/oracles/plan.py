"""Plan-spec (DESIGN.md appendix C): the independent specification of what a run submits.

Targets are 0..n-1 in a topological order (deps[i] only holds smaller indices).
bstate values: 0 UNKNOWN 1 SUBMITTED 2 RUNNING 3 COMPLETED 4 FAILED 5 CANCELLED
status values: names of gwf.core.Status
"""

B_UNKNOWN, B_SUBMITTED, B_RUNNING, B_COMPLETED, B_FAILED, B_CANCELLED = range(6)
LIVE_OR_DEAD = {B_SUBMITTED: "SUBMITTED", B_RUNNING: "RUNNING", B_FAILED: "FAILED", B_CANCELLED: "CANCELLED"}
RESUBMIT = ("FAILED", "CANCELLED", "SHOULDRUN")


def closure(deps, requested):
    cone = set()
    todo = list(requested)
    while todo:
        i = todo.pop()
        if i in cone:
            continue
        cone.add(i)
        todo.extend(deps[i])
    return cone


def plan(n, deps, stale, bstate, requested, cone=None):
    """Returns (cone, st, pre, sub): status name per cone target, prerequisite list per cone
    target, list of submitted targets.  (Lists, not sets: cheaper under symbolic tracing.)"""
    if cone is None:
        cone = sorted(closure(deps, requested))
    st, pre, sub = {}, {}, []
    for i in range(n):
        if i not in cone:
            continue
        pre[i] = [d for d in deps[i] if st[d] != "COMPLETED"]
        b = bstate[i]
        if b == B_SUBMITTED:
            st[i] = "SUBMITTED"
        elif b == B_RUNNING:
            st[i] = "RUNNING"
        elif b == B_FAILED:
            st[i] = "FAILED"
        elif b == B_CANCELLED:
            st[i] = "CANCELLED"
        elif pre[i] or stale[i]:
            st[i] = "SHOULDRUN"
        else:
            st[i] = "COMPLETED"
        if st[i] in RESUBMIT:
            sub.append(i)
    return cone, st, pre, sub


def check_trace(names, deps, cone, st, pre, sub, submissions, queried):
    """submissions: list of (name, [dep names]) in call order; queried: set of names asked
    for their backend status.  Returns '' or a description of the first discrepancy."""
    idx = {nm: i for i, nm in enumerate(names)}
    seen = []
    for nm, dnames in submissions:
        i = idx[nm]
        if i in seen:
            return "target %s submitted twice" % nm
        if i not in cone:
            return "target %s outside the requested cone was submitted" % nm
        if i not in sub:
            return "target %s (status %s) must not be submitted" % (nm, st[i])
        got = sorted(idx[d] for d in dnames)
        for k in range(1, len(got)):
            if got[k] == got[k - 1]:
                return "target %s names a prerequisite twice: %s" % (nm, dnames)
        if got != sorted(pre[i]):
            return "target %s submitted with prerequisites %s, expected %s" % (nm, sorted(names[d] for d in got), sorted(names[d] for d in pre[i]))
        for d in pre[i]:
            if d in sub and d not in seen:
                return "target %s submitted before its prerequisite %s" % (nm, names[d])
        seen.append(i)
    if sorted(seen) != sorted(sub):
        return "submitted %s, expected %s" % (sorted(names[i] for i in seen), sorted(names[i] for i in sub))
    for nm in queried:
        if idx[nm] not in cone:
            return "target %s outside the cone was asked for its backend status" % nm
    return ""


def shapes(n):
    """All upper-triangular adjacency matrices on n nodes as deps lists (deps[i] subset of 0..i-1)."""
    pairs = [(i, d) for i in range(n) for d in range(i)]
    out = []
    for mask in range(1 << len(pairs)):
        deps = [[] for _ in range(n)]
        for k, (i, d) in enumerate(pairs):
            if mask >> k & 1:
                deps[i].append(d)
        out.append(deps)
    return out


def endpoints(n, deps):
    has_dependents = set(d for i in range(n) for d in deps[i])
    return [i for i in range(n) if i not in has_dependents]
