"""Graph-spec (DESIGN.md appendix C) over a role matrix.

roles[t][f] in {0 none, 1 input, 2 output, 3 both} for targets t and files f (canonical files);
exists[f] says whether file f is on disk.
"""
NONE, IN, OUT, BOTH = 0, 1, 2, 3


def is_in(r):
    return r == IN or r == BOTH


def is_out(r):
    return r == OUT or r == BOTH


def analyse(nt, nf, roles, exists):
    """Returns dict(multi, unres, cyclic, dep, producers, unresolved)."""
    producers = [[t for t in range(nt) if is_out(roles[t][f])] for f in range(nf)]
    multi = False
    for f in range(nf):
        if len(producers[f]) >= 2:
            multi = True
    unres = False
    unresolved = []
    for f in range(nf):
        if len(producers[f]) == 0:
            used = False
            for t in range(nt):
                if is_in(roles[t][f]):
                    used = True
            if used:
                unresolved.append(f)
                if not exists[f]:
                    unres = True
    dep = [[False] * nt for _ in range(nt)]      # dep[b][a]: b depends on a
    for b in range(nt):
        for a in range(nt):
            for f in range(nf):
                if is_in(roles[b][f]) and is_out(roles[a][f]):
                    dep[b][a] = True
    reach = [[dep[b][a] for a in range(nt)] for b in range(nt)]
    for k in range(nt):
        for i in range(nt):
            for j in range(nt):
                if reach[i][k] and reach[k][j]:
                    reach[i][j] = True
    cyclic = False
    for t in range(nt):
        if reach[t][t]:
            cyclic = True
    return {"multi": multi, "unres": unres, "cyclic": cyclic, "dep": dep, "producers": producers, "unresolved": unresolved}
