"""Reference readers for job scripts: POSIX shell word splitting of one line, and the
scheduler directive lines (#SBATCH / #$ / #BSUB)."""


class NotLiteral(Exception):
    """The line contains an active shell construct (expansion, glob, operator, comment)."""


def shell_words(line):
    """Split one command line into literal words the way a POSIX shell would, refusing every
    construct that makes a word non-literal (parameter/command expansion, globbing, tilde,
    operators, comments).  Returns the list of words."""
    words = []
    cur = None
    i = 0
    n = len(line)
    while i < n:
        c = line[i]
        if c in " \t":
            if cur is not None:
                words.append(cur)
                cur = None
            i += 1
            continue
        if c == "'":
            j = line.find("'", i + 1)
            if j < 0:
                raise NotLiteral("unterminated single quote")
            cur = (cur or "") + line[i + 1:j]
            i = j + 1
            continue
        if c == '"':
            j = i + 1
            buf = ""
            while True:
                if j >= n:
                    raise NotLiteral("unterminated double quote")
                d = line[j]
                if d == '"':
                    break
                if d == "\\" and j + 1 < n and line[j + 1] in '$`"\\':
                    buf += line[j + 1]
                    j += 2
                    continue
                if d in "$`":
                    raise NotLiteral("expansion inside double quotes")
                buf += d
                j += 1
            cur = (cur or "") + buf
            i = j + 1
            continue
        if c == "\\":
            if i + 1 >= n:
                raise NotLiteral("trailing backslash")
            cur = (cur or "") + line[i + 1]
            i += 2
            continue
        if c in "$`":
            raise NotLiteral("expansion")
        if c in "*?[":
            raise NotLiteral("glob")
        if c in ";&|<>()":
            raise NotLiteral("operator")
        if c == "#" and cur is None:
            raise NotLiteral("comment")
        if c == "~" and cur is None:
            raise NotLiteral("tilde expansion")
        if c == "!" and cur is None:
            raise NotLiteral("history/negation")
        if c in "{}" and cur is None:
            raise NotLiteral("brace")
        cur = (cur or "") + c
        i += 1
    if cur is not None:
        words.append(cur)
    return words


PREFIX = {"slurm": "#SBATCH ", "sge": "#$ ", "lsf": "#BSUB "}


def directives(backend, script):
    """Directive lines of the script, in order, without the prefix (up to the first command)."""
    out = []
    for line in script.split("\n"):
        if line.startswith(PREFIX[backend]):
            out.append(line[len(PREFIX[backend]):])
    return out


def body_after_directives(script):
    """Lines after the directive block."""
    lines = script.split("\n")
    k = 0
    for i, line in enumerate(lines):
        if line.startswith("#"):
            k = i + 1
    return lines[k:]


FLAGS = {
    "slurm": {"nodes": "-N ", "cores": "-c ", "memory": "--mem=", "walltime": "-t ", "queue": "-p ", "account": "-A ", "constraint": "-C ",
              "mail_type": "--mail-type=", "mail_user": "--mail-user=", "qos": "--qos=", "gres": "--gres="},
    "sge": {"cores": "-pe smp ", "memory": "-l h_vmem=", "walltime": "-l h_rt=", "queue": "-q ", "account": "-P "},
    "lsf": {"cores": "-n ", "queue": "-q ", "memory": "-M "},
}


def option_values(backend, script):
    """option name -> list of values given by directives (every occurrence)."""
    res = {}
    for d in directives(backend, script):
        for name, flag in FLAGS[backend].items():
            if d.startswith(flag):
                res.setdefault(name, []).append(d[len(flag):])
    return res
