"""Reference tables of documented scheduler state codes (DESIGN.md appendix A), transcribed from the
squeue(1)/sacct(1), bjobs(1), qstat(1) manuals.  Classes: what the statement of C08 demands.

  S = must show submitted, R = must show running, F = failed, C = cancelled,
  U = success / no record: falls back to the file-based decision (backend state UNKNOWN or COMPLETED),
  L = other documented code of a job that still exists: must show submitted or running (never failed,
      cancelled or 'no record' - each of those makes the next `gwf run` submit a second job),
  T = other documented terminal code: any class, but gwf must not crash.
"""
SQUEUE = {"PD": "S", "R": "R", "F": "F", "NF": "F", "OOM": "F", "TO": "F", "CA": "C", "CD": "U",
          "CF": "L", "CG": "L", "RD": "L", "RF": "L", "RH": "L", "RQ": "L", "RS": "L", "SE": "L", "SI": "L", "SO": "L", "ST": "L", "S": "L",
          "BF": "T", "DL": "T", "PR": "T", "RV": "T"}
SACCT = {"PENDING": "S", "RUNNING": "R", "FAILED": "F", "NODE_FAIL": "F", "OUT_OF_MEMORY": "F", "TIMEOUT": "F", "CANCELLED": "C", "CANCELLED by 1234": "C",
         "COMPLETED": "U", "REQUEUED": "L", "RESIZING": "L", "SUSPENDED": "L", "BOOT_FAIL": "T", "DEADLINE": "T", "PREEMPTED": "T", "REVOKED": "T"}
BJOBS = {"PEND": "S", "RUN": "R", "EXIT": "F", "DONE": "U", "": "U", "PROV": "L", "PSUSP": "L", "USUSP": "L", "SSUSP": "L", "WAIT": "L", "ZOMBI": "L", "UNKWN": "T"}
# qstat(1): pending = qw, hqw, hRwq (and Rq/Rqw/hRq: rescheduled, waiting again); running = r, t, Rr, Rt; the suspended
# family keeps its slot (submitted or running both acceptable); E* = error, d* = being deleted.
QSTAT = {"qw": "S", "hqw": "S", "r": "R", "t": "R", None: "U", "hRwq": "S", "Rq": "S", "Rqw": "S", "hRq": "S", "Rr": "R", "Rt": "R", "s": "L", "ts": "L", "S": "L", "tS": "L", "T": "L", "tT": "L", "Rs": "L",
         "Eqw": "T", "Ehqw": "T", "dr": "T", "dt": "T", "ds": "T", "dS": "T", "dT": "T"}
LOCAL = {"SUBMITTED": "S", "RUNNING": "R", "FAILED": "F", "KILLED": "F", "CANCELLED": "C", "COMPLETED": "U", "UNKNOWN": "U", None: "U"}

ALLOWED = {"S": ("SUBMITTED",), "R": ("RUNNING",), "F": ("FAILED",), "C": ("CANCELLED",), "U": ("UNKNOWN", "COMPLETED"), "L": ("SUBMITTED", "RUNNING"),
           "T": ("UNKNOWN", "SUBMITTED", "RUNNING", "COMPLETED", "FAILED", "CANCELLED")}


def ok(cls, backend_status_name):
    return backend_status_name in ALLOWED[cls]
