"""Run ONE (query, shard) of one property in this interpreter and print a JSON result.

    python -m vf.runq C01 Q1a '{"kin":2,"kout":2}' --timeout 60 [--twin] [--exclude id,id]
    python -m vf.runq --replay /verif/replays/C01-Q1a-....json

Verdicts:  CONFIRMED  CrossHair "Confirmed over all paths" for the query
           REFUTED    a counterexample was produced (args in result["cex"])
           UNKNOWN    budget exhausted / solver unknown / engine error  (never a pass)
"""
import importlib
import json
import logging
import os
import resource
import sys
import time


def load(prop):
    return importlib.import_module("vf.props." + prop)


def find_query(mod, name):
    for qu in mod.QUERIES:
        if qu["name"] == name:
            return qu
    raise KeyError(name)


def analyze(fn, timeout, per_path):
    from crosshair.core_and_libs import analyze_function, run_checkables, MessageType
    from crosshair.options import AnalysisOptionSet, AnalysisKind
    # CrossHair by-passes functools.lru_cache under its tracer; gwf's touch_workflow relies on the cache as
    # its visited set, so by-passing it would change the behaviour of the real code (measured: a diamond's
    # shared dependency touched twice).  Keys here are concrete objects, so the real cache is safe to keep.
    from functools import _lru_cache_wrapper
    from crosshair import core as _xcore
    _xcore._PATCH_REGISTRATIONS.pop(_lru_cache_wrapper.__call__, None)
    opts = AnalysisOptionSet(
        per_condition_timeout=timeout,
        per_path_timeout=per_path,
        report_all=True,
        analysis_kind=[AnalysisKind.PEP316],
        max_uninteresting_iterations=0,   # 0 = never give up early; only the CPU budget ends the search
    )
    msgs = []
    for m in run_checkables(analyze_function(fn, opts)):
        msgs.append((m.state.name, m.message))
    return msgs


def verdict_of(msgs):
    states = [s for s, _ in msgs]
    if not states:
        return "UNKNOWN"
    if any(s in ("POST_FAIL", "EXEC_ERR", "POST_ERR", "PRE_INVALID", "SYNTAX_ERR", "IMPORT_ERR") for s in states):
        return "REFUTED"
    if all(s == "CONFIRMED" for s in states):
        return "CONFIRMED"
    return "UNKNOWN"


def main(argv):
    import gwf
    want = os.path.join(os.environ.get("VF_REPO", "/repo"), "src")
    if not os.path.realpath(gwf.__file__).startswith(os.path.realpath(want) + os.sep):
        raise SystemExit("gwf imported from %s, expected below %s" % (gwf.__file__, want))
    from vf import q
    if argv and argv[0] == "--replay":
        return replay(argv[1])
    prop, qname, shard = argv[0], argv[1], json.loads(argv[2])
    timeout = 60.0
    twin = False
    i = 3
    while i < len(argv):
        if argv[i] == "--timeout":
            timeout = float(argv[i + 1]); i += 2
        elif argv[i] == "--twin":
            twin = True; i += 1
        elif argv[i] == "--exclude":
            q.EXCLUDE = set(x for x in argv[i + 1].split(",") if x); i += 2
        else:
            raise SystemExit("bad arg " + argv[i])
    q.SHARD = shard
    mod = load(prop)
    qu = find_query(mod, qname)
    if "setup" in qu:
        qu["setup"](shard)
    fn = qu["fn"]
    res = {"prop": prop, "query": qname, "shard": shard, "timeout": timeout}
    t0 = time.time(); c0 = time.process_time()
    if qu.get("concrete"):
        # validation obligations that run real external tools (bash, real asyncio with sh children): executed untraced, once
        q.CONCRETE = True
        try:
            r = fn()
        except Exception as exc:
            r = "validation raised %r" % (exc,)
        res["verdict"] = "CONFIRMED" if r == "" else "REFUTED"
        res["messages"] = [["CONCRETE", r[:400]]]
        res["stats"] = {"paths": 1, "reached": 1, "skipped": 0, "choices": 0, "failed": 0 if r == "" else 1}
        res["cpu_s"] = round(time.process_time() - c0, 2)
        if r != "":
            res["cex"] = {"args": [], "msg": r}
        res["twin"] = "REACHED"
        res["samples"] = [{"args": [], "note": "stub validation against the real tool"}]
        res["validated"] = 1 if r == "" else 0
        res["validation_mismatch"] = []
        res["wall_s"] = round(time.time() - t0, 2)
        print("RESULT " + json.dumps(res))
        return 0
    if "smt" in qu:
        # E2 kernel: the obligation is decided by the SMT solvers directly (unbounded); fn is the concrete replay
        r = qu["smt"](shard)
        res["verdict"] = r["verdict"]
        res["messages"] = [["SMT", json.dumps(r.get("detail"), default=str)[:600]]]
        res["stats"] = {"paths": 1, "reached": 1, "skipped": 0, "choices": 0, "failed": 1 if r["verdict"] == "REFUTED" else 0}
        res["cpu_s"] = round(time.process_time() - c0, 2)
        res["smt"] = r.get("detail")
        if r["verdict"] == "REFUTED":
            res["cex"] = {"args": r["cex"], "msg": "SMT model"}
        res["twin"] = "REACHED"
        q.CONCRETE = True
        res["samples"] = [{"args": a} for a in qu.get("smt_samples", [])]
        res["validated"] = sum(1 for a in qu.get("smt_samples", []) if fn(*a) == "")
        res["validation_mismatch"] = []
        res["wall_s"] = round(time.time() - t0, 2)
        print("RESULT " + json.dumps(res))
        return 0
    # main analysis
    q.CONCRETE = False
    q.TWIN = False
    per_path = qu.get("per_path", max(10.0, timeout ** 0.5))
    try:
        msgs = analyze(fn, timeout, per_path)
        res["verdict"] = verdict_of(msgs)
    except q.HarnessError as exc:
        msgs = [("HARNESS_ERR", str(exc))]
        res["verdict"] = "UNKNOWN"
    except Exception as exc:   # engine failure
        msgs = [("ENGINE_ERR", repr(exc))]
        res["verdict"] = "UNKNOWN"
    res["messages"] = [[s, m[:400]] for s, m in msgs][:5]
    res["stats"] = dict(q.STATS)
    res["cpu_s"] = round(time.process_time() - c0, 2)
    if res["verdict"] == "REFUTED":
        res["cex"] = q.CEX[-1] if q.CEX else None
        if res["cex"] is None:
            # refuted without passing through q.run's capture (e.g. exception in the harness itself)
            res["verdict"] = "UNKNOWN"
            res["messages"].append(["NOTE", "refuted without captured counterexample"])
    samples = list(q.SAMPLES)
    # vacuity twin: must be REFUTED with REACHED (cheap: stops at the first reaching path)
    if res["verdict"] == "CONFIRMED":
        q.TWIN = True
        for k in q.STATS:
            q.STATS[k] = 0
        del q.CEX[:]
        c1 = time.process_time()
        try:
            tm = analyze(fn, max(20.0, timeout / 4), per_path)
            tv = verdict_of(tm)
        except Exception as exc:
            tv = "UNKNOWN"
        res["twin"] = "REACHED" if (tv == "REFUTED" and q.CEX and q.CEX[-1]["msg"] == q.REACHED) else ("VACUOUS" if tv == "CONFIRMED" else "UNKNOWN")
        res["twin_cpu_s"] = round(time.process_time() - c1, 2)
        if q.CEX:
            samples.insert(0, {"args": q.CEX[-1]["args"], "from": "twin"})
        q.TWIN = False
    # concrete validation of sampled paths against the real code (untraced)
    q.CONCRETE = True
    validated = 0
    bad = []
    body_fn = qu["fn"]
    for s in samples:
        try:
            r = body_fn(*s["args"])
        except Exception as exc:
            r = "exception %r" % (exc,)
        if r == "":
            validated += 1
        else:
            bad.append({"args": s["args"], "got": r})
    res["samples"] = samples[:8]
    res["validated"] = validated
    res["validation_mismatch"] = bad[:3]
    res["wall_s"] = round(time.time() - t0, 2)
    res["maxrss_mb"] = resource.getrusage(resource.RUSAGE_SELF).ru_maxrss // 1024
    print("RESULT " + json.dumps(res))
    return 0


def replay(path):
    """Re-run a recorded counterexample untraced, against the real code, in this fresh
    interpreter.  Exit 1 if it reproduces (prints the message), 0 if it does not."""
    from vf import q
    rec = json.load(open(path))
    q.SHARD = rec["shard"]
    q.EXCLUDE = set(rec.get("exclude", []))
    q.CONCRETE = True
    mod = load(rec["prop"])
    qu = find_query(mod, rec["query"])
    if "setup" in qu:
        qu["setup"](rec["shard"])
    r = qu["fn"](*rec["args"])
    out = {"reproduced": r != "", "msg": r}
    if r != "" and "e2e" in qu:
        # optional end-to-end replay (real bash / real asyncio / real files)
        try:
            out["e2e"] = qu["e2e"](rec["shard"], rec["args"])
        except Exception as exc:
            out["e2e"] = "e2e replay raised %r" % (exc,)
    print("REPLAY " + json.dumps(out))
    return 1 if r != "" else 0


if __name__ == "__main__":
    sys.exit(main(sys.argv[1:]))
