"""C06  Convergence: a successful run leaves everything complete; re-run is a no-op."""
import json

from vf import q
from vf.oracles import plan as P
from vf.world import abst
from vf.world.cmds import ROOT
from vf.world.proj import Project

META = {
    "solver_reasoned": 'modification time of every file, start time of the run, finish time of every submitted job (linear constraints from the scheduler contract), time of the perturbation: all unbounded symbolic ints.',
    "real": ["gwf.plugins.run.run (body)", "gwf.plugins.status.status (body)", "gwf.scheduling.submit_workflow/schedule/should_run/submit_backend/get_status_map", "gwf.core.CachedFilesystem (real os.stat path over the VFS)",
             "gwf.core.Graph.from_targets", "gwf.core.FileSpecHashes", "gwf.backends.base.TrackingBackend", "gwf.backends.{slurm,sge,lsf,local} submit and state queries"],
    "stubs": ["VFS", "scheduler simulators / pool model; the *drain* between invocations plays the scheduler: every submitted job finishes successfully at a symbolic time f_j constrained only by the contract "
              "f_j >= f_p for every prerequisite p the reference reader parsed from the submission, and f_j >= the start of the run >= every existing mtime; its outputs get mtime f_j"],
    "assumptions": ["the scheduler honours the dependency syntax it was given", "no source file is dated after the start of the run", "jobs create all their declared outputs (statement)",
                    "no job is pending or running initially (statement)"],
    "outside": ["the real worker pool's ordering (C11)", "more than 3 targets (quick) / 4 (thorough)", "more than two perturbation rounds"],
}

EARLIER = ["none", "failed", "cancelled", "done"]


def _drain(pr, be, jobs, fins, now0):
    """Returns None if the symbolic finish times violate the scheduler contract (assumption), else
    the dict name -> finish time after writing outputs and marking the jobs done."""
    fin_of = {}
    for k, j in enumerate(jobs):
        f = fins[k]
        if not (f >= now0):
            return None
        for p in j["deps"]:
            for jj in jobs[:k]:
                if str(jj["id"]) == str(p) and not (f >= fin_of[jj["name"]]):
                    return None
        fin_of[j["name"]] = f
    for j in jobs:
        i = pr.idx(j["name"])
        for o in pr.outputs[i]:
            pr.w.file(o, fin_of[j["name"]], "made by " + j["name"])
        abst.set_state(pr.w, j["id"], "done")
    return fin_of


def _q6(ea, eb, ec, ms, ma, mb, mc, ja, jb, f0, f1, f2, now0, pert, tp):
    sh = q.SHARD
    shape, be, hashing = sh["shape"], sh["be"], sh.get("hashing", False)
    if not (q.in_range(ja, 4) and q.in_range(jb, 4)):
        return q.SKIP
    if "ja" in sh and ja != sh["ja"]:
        return q.SKIP
    if "jb" in sh and jb != sh["jb"]:
        return q.SKIP
    if "pert" in sh and pert != sh["pert"]:
        return q.SKIP
    if not sh.get("earlier", True) and (ja != 0 or jb != 0):
        return q.SKIP
    if sh.get("fresh", False) and not sh.get("edited") and (ea or eb or ec or ma != 0 or mb != 0 or mc != 0):
        return q.SKIP        # fresh project: no output exists yet (their mtimes are then irrelevant)
    if not (ms >= 0 and ms <= now0 and ma <= now0 and mb <= now0 and mc <= now0 and ma >= 0 and mb >= 0 and mc >= 0):
        return q.SKIP
    ja, jb = q.pick([0, 1, 2, 3], ja), q.pick([0, 1, 2, 3], jb)
    with q.notrace():
        pr = Project(shape, be, hashing=hashing)
    nperts = 1 + len(pr.sources) + sum(len(o) for o in pr.outputs)
    if not q.in_range(pert, nperts):
        return q.SKIP
    for s in pr.sources:
        pr.w.file(s, ms, "source")
    if sh.get("linked_src"):
        # every source is a symbolic link (created long ago) to raw data kept elsewhere; what counts is the data's time
        pr.w.vfs.dirs.add("/vfs/raw")
        for s in pr.sources:
            pr.w.vfs.files["/vfs/raw/" + s] = pr.w.vfs.files.pop(ROOT + "/" + s)
            pr.w.vfs.links[ROOT + "/" + s] = "/vfs/raw/" + s
            pr.w.vfs.link_mtime[ROOT + "/" + s] = 0
    ex = [ea, eb, ec, False]
    mt = [ma, mb, mc, 0]
    for i in range(pr.n):
        for o in pr.outputs[i]:
            if i < 3 and ex[i]:
                pr.w.file(o, mt[i], "old " + o)
    for nm, j, jid in (("A", ja, "11"), ("B", jb, "12")):
        if EARLIER[j] != "none" and nm in pr.names:
            pr.add_tracked(nm, jid, EARLIER[j])
    pr.write_tracked()
    if hashing and sh.get("edited"):
        # every spec (or only the named target's) was edited since it was last recorded
        pr.write_hashes({nm: ("0" * 40 if sh["edited"] in (True, nm) else pr.current_hash(nm)) for nm in pr.names})
    w = pr.w
    w.vfs.clock = now0
    w.install()
    try:
        # ---- round 1: run, drain, status, run
        w.run()
        jobs = abst.jobs_by_cmd(w)
        if len(jobs) > 3 and shape != "diamond4":
            return "more submissions than targets: %s" % [j["name"] for j in jobs]
        fins = [f0, f1, f2, f2]
        fin_of = _drain(pr, be, jobs, fins, now0)
        if fin_of is None:
            return q.SKIP
        table = w.status_table()
        for i in range(pr.n):
            if pr.outputs[i] and table.get(pr.names[i]) != "completed":
                return "after a fully successful run %s is shown %s (submitted: %s with prerequisites %s)" % (pr.names[i], table.get(pr.names[i]), [j["name"] for j in jobs], [j["deps"] for j in jobs])
        n1 = len(abst.jobs_by_cmd(w))
        w.run()
        again = [j["name"] for j in abst.jobs_by_cmd(w)[n1:]]
        if sorted(again) != sorted(pr.names[i] for i in range(pr.n) if not pr.outputs[i]):
            return "the re-run after a successful run submitted %s" % again
        # ---- an invocation restricted to the first target changes nothing for the others
        n1r = len(abst.jobs_by_cmd(w))
        w.run((pr.names[0],))
        if len(abst.jobs_by_cmd(w)) != n1r:
            return "run %s after a successful run submitted %s" % (pr.names[0], [j["name"] for j in abst.jobs_by_cmd(w)[n1r:]])
        table = w.status_table()
        for i in range(pr.n):
            if pr.outputs[i] and table.get(pr.names[i]) != "completed":
                return "after a successful run and then `run %s`, %s is shown %s" % (pr.names[0], pr.names[i], table.get(pr.names[i]))
        # ---- perturbation
        if pert == 0:
            return ""
        fmax = now0
        for v in fin_of.values():
            if v > fmax:
                fmax = v
        if not (tp > fmax):
            return q.SKIP
        perts = [("none", None)] + [("touch", s) for s in pr.sources] + [("delete", o) for i in range(pr.n) for o in pr.outputs[i]]
        kind, rel = q.pick(perts, pert)
        if kind == "touch":
            w.vfs.files[w.vfs.links.get(ROOT + "/" + rel, ROOT + "/" + rel)][0] = tp
            hit = [i for i in range(pr.n) if rel in pr.inputs[i]]
        else:
            del w.vfs.files[ROOT + "/" + rel]
            hit = [i for i in range(pr.n) if rel in pr.outputs[i]]
        closure = set(hit)
        changed = True
        while changed:
            changed = False
            for i in range(pr.n):
                if i not in closure and any(d in closure for d in pr.deps[i]):
                    closure.add(i)
                    changed = True
        for i in range(pr.n):
            if not pr.outputs[i]:
                closure.add(i)
        n2 = len(abst.jobs_by_cmd(w))
        for j in abst.jobs_by_cmd(w)[n1:n2]:
            abst.set_state(w, j["id"], "done")
        w.run()
        rerun = sorted(j["name"] for j in abst.jobs_by_cmd(w)[n2:])
        want = sorted(pr.names[i] for i in closure)
        if rerun != want:
            return "after %s %s the run submitted %s, expected %s" % (kind, rel, rerun, want)
        return ""
    finally:
        w.uninstall()


def q6(ea: bool, eb: bool, ec: bool, ms: int, ma: int, mb: int, mc: int, ja: int, jb: int, f0: int, f1: int, f2: int, now0: int, pert: int, tp: int) -> str:
    """
    post: _ == ""
    """
    return q.run(_q6, (ea, eb, ec, ms, ma, mb, mc, ja, jb, f0, f1, f2, now0, pert, tp))


QUERIES = [
    {"name": "Q6", "fn": q6,
     "shards": {"quick": [{"shape": "chain2", "be": "slurm", "ja": a, "jb": b} for a, b in ((0, 0), (1, 3), (3, 1), (2, 2))]
                         + [{"shape": "chain2", "be": "slurm", "ja": a, "jb": b, "hashing": True, "edited": True, "fresh": True} for a, b in ((1, 2), (3, 0))]
                         + [{"shape": "chain2", "be": "slurm", "ja": 3, "jb": 3, "hashing": True, "edited": e, "fresh": True} for e in ("A", "B")]
                         + [{"shape": "fork3", "be": "slurm", "earlier": False, "fresh": True, "pert": p} for p in range(5)]
                         + [{"shape": "join3", "be": "slurm", "earlier": False, "fresh": True, "pert": p} for p in range(6)]
                         + [{"shape": "chain2", "be": "local", "earlier": False, "fresh": True}, {"shape": "chain2+sink", "be": "slurm", "earlier": False, "fresh": True},
                            {"shape": "chain2", "be": "sge", "earlier": False, "fresh": True}, {"shape": "chain2", "be": "lsf", "earlier": False, "fresh": True},
                            {"shape": "chain2u", "be": "slurm", "earlier": False, "fresh": True}, {"shape": "chain2", "be": "slurm", "earlier": False, "fresh": True, "linked_src": True}, {"shape": "tri-rev", "be": "slurm", "earlier": False, "fresh": True, "pert": 0}, {"shape": "tri-rev", "be": "slurm", "earlier": False, "fresh": True, "pert": 1}],
                "thorough": [{"shape": "chain2", "be": b, "ja": a, "jb": jb_, "hashing": h} for b in ("slurm", "sge", "lsf", "local") for a in range(4) for jb_ in range(4) for h in (False, True)]
                            + [{"shape": "chain2", "be": "slurm", "ja": a, "jb": jb_, "hashing": True, "edited": e} for a in (0, 3) for jb_ in (0, 3) for e in ("A", "B", True)]
                            + [{"shape": s, "be": b, "earlier": False, "pert": p} for s, np in (("fork3", 5), ("join3", 6), ("chain3", 5)) for b in ("slurm", "local") for p in range(np)]
                            + [{"shape": "chain2+sink", "be": b, "earlier": False} for b in ("slurm", "local")] + [{"shape": "diamond4", "be": "slurm", "earlier": False, "fresh": True, "pert": p} for p in range(6)]},
     "timeout": {"quick": 1500, "thorough": 3600},
     "bound": "chain of 2 with earlier job states of A and B in {none, failed, cancelled, completed} (4 combinations quick, all 16 thorough), existence and modification time (symbolic int) of every file, finish time of every job (symbolic int under the scheduler contract), "
              "an invocation restricted to the first target (no effect on the others), one perturbation (touch of any source with a symbolic later time / deletion of any output) and the following run; fork and join on 3 targets, a triangle with a shortcut edge, a chain whose intermediate file has a decomposed (NFD) name, a chain whose source is a symbolic link to data kept elsewhere, chain + output-less sink and chain of 2 on SGE/LSF/pool from a fresh project (no outputs yet) in quick; spec hashing with the recorded hash of every / only the first / only the second target outdated; arbitrary initial files for those shapes, all backends, hashing, diamond in thorough"},
]
