"""Shared query body for C11, C12, C13: the real worker-pool coroutines on the deterministic loop,
driven by a symbolic event script, compared with the local-pool specification (DESIGN.md app. C).
Messages are tagged with the property whose clause is violated."""
from vf import q
from vf.world.poolworld import FAILED_LIKE, FINAL, LocalStatus, Pool

META_COMMON = {
    "real": ["gwf.backends.local.Scheduler.enqueue_task", "gwf.backends.local.Scheduler.cancel_task", "gwf.backends.local.Scheduler.try_handle_task", "gwf.backends.local.Scheduler._gentle_kill",
             "asyncio.tasks._PyTask / futures._PyFuture / Semaphore / wait / wait_for / sleep / shield (CPython's pure-Python implementations, unmodified)"],
    "stubs": ["event loop = DetLoop (FIFO ready queue like BaseEventLoop, timer heap, virtual clock, no selector): vf/world/poolworld.py",
              "child processes = FakeProc (communicate completes when the environment delivers the exit; kill() ends it; terminate() ends it unless the scenario says it ignores SIGTERM)",
              "log files on the VFS (open for write may fail with OSError)", "counting proxy around the real asyncio.Semaphore"],
    "assumptions": ["an exception escaping a task coroutine ends only that task (asyncio contract)", "events are delivered between quiescent points of the pool, or (thorough, flush=False) "
                    "back-to-back without letting the pool run in between"],
    "outside": ["grandchildren of the shell (process groups are OS behaviour)", "real time", "more than 4 tasks / event scripts longer than the stated bound", "asyncio's C-accelerated Task/Future"],
}

# scenarios: list of (name, deps as indices into the list, time_limit, late)
SCEN = {
    # (target names may contain dots: sibling names sharing a prefix must keep separate logs)
    "chain": [("al.s1", [], None, False), ("al.s2", [0], None, False), ("c", [1], None, False)],
    "fork": [("a", [], None, False), ("b.x", [0], None, False), ("b.y", [0], None, False)],
    "skip": [("a", [], None, False), ("b", [0], None, False), ("c", [], None, False), ("d", [], None, False)],
    "indep-tl": [("a", [], 5, False), ("b", [], None, False), ("c", [], 5, False)],
    "join": [("a", [], None, False), ("b", [], None, False), ("c", [0, 1], None, False)],
    "late": [("a", [], None, False), ("b", [0], None, True), ("c", [], None, True)],
    "tl-chain": [("a", [], 5, False), ("b", [0], None, False), ("c", [], None, False)],
    "late-join": [("a", [], None, False), ("c", [], None, False), ("b", [0, 1], None, True)],
    # two tasks with the same name alive in one pool (q and q#2 are both called q): one is skipped / cancelled / finishes while the other holds a core
    "twins": [("p", [], None, False), ("q", [0], None, False), ("q#2", [], None, False), ("r", [], None, False)],
    # g is a grouping target (blank script) between a and c
    "blank": [("a", [], None, False), ("g!e", [0], None, False), ("c", [1], None, False)],
    "one": [("a", [], None, False)],
    "one-tl": [("a", [], 5, False), ("b", [], None, False)],
}


def n_enabled0(scen_name, cores):
    """Number of enabled events (incl. stop) at the first step, by a concrete run of the prelude."""
    pool = Pool(max_cores=cores)
    pool.install()
    try:
        tids = []
        late = 0
        for name, deps, tl, is_late in SCEN[scen_name]:
            if is_late:
                late += 1
            else:
                tids.append(pool.enqueue(name, [tids[d] for d in deps], tl))
        return len(pool.live()) + len(tids) + (1 if pool.loop.has_timer() else 0) + (1 if late else 0) + 1
    finally:
        pool.uninstall()


def split(shard):
    """One shard per value of the first event selector."""
    return [dict(shard, e0=k) for k in range(n_enabled0(shard["scen"], shard["cores"]))]


LAST_SAW_CANCEL = [False]


def pool_body(args):
    """args = (e0..e5, f0..f5, rc0..rc3, sf, lf).  Shard: scen, cores, steps, ignore_term, races."""
    es, fs, rcs, sf, lf = list(args[0:6]), list(args[6:12]), list(args[12:16]), args[16], args[17]
    sh = q.SHARD
    scen = SCEN[sh["scen"]]
    nsteps = sh["steps"]
    races = sh.get("races", False)
    nt = len(scen)
    if not (q.in_range(sf, 1 << nt) and q.in_range(lf, 1 << nt)):
        return q.SKIP
    if not sh.get("faults", False) and (sf != 0 or lf != 0):
        return q.SKIP
    if "e0" in sh and es[0] != sh["e0"]:
        return q.SKIP
    for i in range(nsteps, 6):
        if es[i] != 0 or fs[i]:
            return q.SKIP
    if not races:
        for i in range(6):
            if fs[i]:
                return q.SKIP
    pool = Pool(max_cores=sh["cores"], ignore_term=sh.get("ignore_term", False), big_output=sh.get("big_output", False))
    pool.install()
    try:
        sched = pool.sched
        processed = pool.processed
        tids = {}
        late = []
        first_final = {}
        rc_used = [0]
        timeouts = []

        def observe():
            msg = ""
            live = len(pool.live())
            if live > pool.max_cores:
                msg = "[C12] %d task processes alive with %d core(s)" % (live, pool.max_cores)
            if pool.sem.over_release:
                msg = "[C12] a core was released that had not been taken"
            held = pool.sem.acq - pool.sem.rel
            for tid in list(sched.task_states):
                st = sched.task_states[tid]
                if tid in first_final and st != first_final[tid]:
                    msg = "[C13] task %s changed from final state %s to %s" % (pool.names.get(tid), first_final[tid].name, st.name)
                if st in FINAL and tid not in first_final:
                    first_final[tid] = st
                # once the pool is through with a cancelled / timed-out task, none of its processes keeps running
                if st in (LocalStatus.CANCELLED, LocalStatus.KILLED) and tid in sched.tasks and sched.tasks[tid].done():
                    pr_ = pool.proc_of(tid)
                    if pr_ is not None and pr_.alive():
                        msg = "[C13] task %s is %s and the pool is through with it, but its process is still running" % (pool.names.get(tid), st.name)
            # a free core is never left idle while a ready task waits (quiescent points only)
            if held < pool.max_cores:
                for tid in list(sched.task_states):
                    if sched.task_states[tid] == LocalStatus.SUBMITTED and tid not in pool.spawn_facts and tid not in [t for t in pool.spawn_attempts]:
                        deps = pool.deps.get(tid, [])
                        if all(sched.task_states.get(d) == LocalStatus.COMPLETED and sched.tasks[d].done() for d in deps):
                            if not any(p[0] == tid for p in processed):
                                msg = "[C12] task %s is ready but waits although %d of %d cores are free" % (pool.names.get(tid), pool.max_cores - held, pool.max_cores)
            return msg

        saw_cancel = LAST_SAW_CANCEL
        saw_cancel[0] = False
        for i, (name, deps, tl, is_late) in enumerate(scen):
            if is_late:
                late.append(i)
            else:
                tids[i] = pool.enqueue(name, [tids[d] for d in deps], tl, spawn_fail=bool((sf >> i) & 1), log_fail=bool((lf >> i) & 1))
        m = observe()
        if m:
            return m
        stopped = False
        for step in range(nsteps):
            enabled = [("exit", p) for p in pool.can_exit()]
            enabled += [("cancel", t) for t in sorted(tids.values())]
            if pool.loop.has_timer():
                enabled.append(("timer", None))
            if late:
                enabled.append(("enqueue", late[0]))
            enabled.append(("stop", None))
            e = es[step]
            if not q.in_range(e, len(enabled)):
                return q.SKIP
            if stopped:
                if e != 0 or fs[step]:
                    return q.SKIP
                continue
            kind, what = q.pick(enabled, e)
            if kind == "stop":
                stopped = True
                if fs[step]:
                    return q.SKIP
                continue
            if kind == "exit":
                rc = rcs[rc_used[0]] if rc_used[0] < 4 else 0
                rc_used[0] += 1
                what.rc_given = rc
                pool.exit(what, rc)
            elif kind == "cancel":
                saw_cancel[0] = True
                pool.cancel(what)
            elif kind == "timer":
                before = [p for p in pool.live()]
                pool.timer()
                timeouts.append(before)
            else:
                i = late.pop(0)
                name, deps, tl, _ = scen[i]
                tids[i] = pool.enqueue(name, [tids[d] for d in deps], tl, spawn_fail=bool((sf >> i) & 1), log_fail=bool((lf >> i) & 1))
            if not fs[step]:
                pool.settle()
                m = observe()
                if m:
                    return m + " (after event %d: %s)" % (step, kind)
        # ---- drain: remaining late tasks, all exits, all timers
        pool.settle()
        m = observe()
        if m:
            return m
        for _ in range(12):
            while late:
                i = late.pop(0)
                name, deps, tl, _ = scen[i]
                tids[i] = pool.enqueue(name, [tids[d] for d in deps], tl, spawn_fail=bool((sf >> i) & 1), log_fail=bool((lf >> i) & 1))
            progressed = False
            for p in pool.can_exit():
                if pool.names.get(p.tid) in [scen[i][0] for i in range(nt) if scen[i][2] is not None] and sh.get("drain_timeouts", False):
                    continue
                rc = rcs[rc_used[0]] if rc_used[0] < 4 else 0
                rc_used[0] += 1
                p.rc_given = rc
                pool.exit(p, rc)
                pool.settle()
                progressed = True
                m = observe()
                if m:
                    return m + " (drain)"
            if pool.timer():
                pool.settle()
                progressed = True
                m = observe()
                if m:
                    return m + " (drain)"
            if not progressed:
                break
        # ---- final verdicts
        if pool.live():
            return "[C13] a task process is still alive after everything was delivered: %s" % [pool.names.get(p.tid) for p in pool.live()]
        if pool.sem.acq != pool.sem.rel:
            return "[C12] cores taken %d times, released %d times" % (pool.sem.acq, pool.sem.rel)
        eff_cancel = {}
        for tid, st, prc in processed:
            if st in (LocalStatus.SUBMITTED, LocalStatus.RUNNING):
                eff_cancel.setdefault(tid, (st, prc))
        problems = []
        final = {}
        for i in range(nt):
            tid = tids[i]
            st = sched.task_states[tid]
            final[tid] = st
            nm = scen[i][0]
            if st not in FINAL or not sched.tasks[tid].done():
                return ("[C13] task %s never reached a final state (state %s, coroutine done=%s)" % (nm, st.name, sched.tasks[tid].done()))
            if pool.spawn_attempts.count(tid) > 1:
                problems.append("[C13] task %s was started %d times" % (nm, pool.spawn_attempts.count(tid)))
        for i in range(nt):       # deps come first in every scenario
            tid = tids[i]
            nm, deps_i, tl, _ = scen[i]
            st = final[tid]
            deps = [tids[d] for d in deps_i]
            bad_failed = [d for d in deps if final[d] in FAILED_LIKE]
            bad_cancel = [d for d in deps if final[d] == LocalStatus.CANCELLED]
            attempted = tid in pool.spawn_attempts
            spawned = tid in pool.spawn_facts
            if spawned and not pool.spawn_facts[tid]["deps_done_completed"]:
                problems.append("[C11] task %s was started before all its dependencies had completed successfully" % nm)
            if spawned:
                for ok_ in pool.spawn_facts[tid]["deps_truly_ok"]:
                    if not ok_:
                        problems.append("[C11] task %s was started although the process of a dependency had not exited with status 0" % nm)
                        break
            if (bad_failed or bad_cancel) and attempted:
                # it may only have been started if every dependency was COMPLETED at that moment - checked above;
                # a dependency cannot leave COMPLETED (checked by observe)
                problems.append("[C11] task %s was started although dependency states are %s" % (nm, [final[d].name for d in deps]))
            proc = pool.proc_of(tid)
            acceptable = []
            natural = []
            if bad_failed or bad_cancel:
                if bad_failed:
                    natural += [LocalStatus.FAILED, LocalStatus.KILLED]
                if bad_cancel:
                    natural += [LocalStatus.CANCELLED]
            elif attempted and not spawned:
                natural = [LocalStatus.FAILED]                      # could not be started
            elif spawned:
                timed_out = proc.kill_calls + proc.term_calls > 0 and not proc.ran_to_end and tid not in eff_cancel
                if proc.ran_to_end:
                    rc = proc.rc_given
                    if rc == 0:
                        natural = [LocalStatus.COMPLETED] if not ((lf >> i) & 1) else [LocalStatus.COMPLETED, LocalStatus.FAILED]
                    else:
                        natural = [LocalStatus.FAILED]
                    if tl is not None and races:
                        natural += [LocalStatus.KILLED]            # time-out racing with the exit
                else:
                    natural = [LocalStatus.KILLED, LocalStatus.FAILED] if tl is not None else []
            else:
                natural = []
            if tid in eff_cancel:
                acceptable = [LocalStatus.CANCELLED]
                st_then, prc_then = eff_cancel[tid]
                if prc_then is not None or races:
                    acceptable += natural                           # the exit had already happened / was in flight
                if tl is not None:
                    acceptable += [LocalStatus.KILLED] if races else []
            else:
                acceptable = natural
            if not acceptable and not attempted and not (bad_failed or bad_cancel) and tid not in eff_cancel:
                problems.append("[C13] task %s was never started although nothing prevented it (final state %s)" % (nm, st.name))
            if st not in acceptable:
                what = "cancel requested while %s" % eff_cancel[tid][0].name if tid in eff_cancel else ("deps " + str([final[d].name for d in deps]) if deps else "")
                problems.append("[C13] task %s ended %s; acceptable: %s (%s; started=%s, exit=%s)" % (nm, st.name, [a.name for a in acceptable], what, spawned, getattr(proc, "rc_given", None) if proc else None))
            if (bad_failed or bad_cancel) and st == LocalStatus.COMPLETED:
                problems.append("[C11] task %s completed although a dependency did not" % nm)
            # logs of a task that ran to its end and completed are stored completely
            if spawned and proc.ran_to_end and st == LocalStatus.COMPLETED and not any(o != nm and o.split("#")[0] == nm.split("#")[0] for o in pool.names.values()):
                if pool.log(nm, "stdout") != proc.stdout.decode() or pool.log(nm, "stderr") != proc.stderr.decode():
                    problems.append("[C13] logs of completed task %s are incomplete: %r / %r" % (nm, pool.log(nm, "stdout"), pool.log(nm, "stderr")))
            if spawned and tl is not None and proc.killed_at is not None and tid not in eff_cancel and not proc.ran_to_end:
                if proc.killed_at < proc.spawned_at + tl:
                    problems.append("[C13] task %s was killed for exceeding its time limit of %s s after running only %s s" % (nm, tl, proc.killed_at - proc.spawned_at))
            if spawned and st == LocalStatus.COMPLETED and not (proc.ran_to_end and proc.rc_given == 0):
                problems.append("[C13] task %s is completed but its process did not run to an exit status 0" % nm)
            if spawned and proc.returncode is None:
                problems.append("[C13] process of task %s still running at the end" % nm)
        if problems:
            return " | ".join(problems)
        return ""
    finally:
        pool.uninstall()
