"""C07  Prerequisites reach each scheduler intact, so no job starts on unfinished inputs."""
import json
import logging

from vf import q
from vf.oracles import plan as P
from vf.world import abst, schedsim, vfs
from vf.world.cmds import ROOT, World

from gwf.backends import local as local_mod
from gwf.backends import lsf as lsf_mod
from gwf.backends import sge as sge_mod
from gwf.backends import slurm as slurm_mod
from gwf.core import Target

META = {
    "solver_reasoned": 'finish times of jobs (Q7d, symbolic ints); prerequisite ids as symbolic digit strings (Q7s, string theory); exit codes and event scripts (Q7p); otherwise selectors over id/state catalogues.',
    "real": ["gwf.backends.slurm.SlurmOps.submit_target", "gwf.backends.sge.SGEOps.submit_target", "gwf.backends.lsf.LSFOps.submit_target",
             "gwf.backends.local.LocalOps.submit_target", "gwf.backends.local.Client.submit/send/recv/connect", "gwf.backends.local.encode/decode",
             "gwf.backends.utils.call", "gwf.backends.base.TrackingBackend.__init__/submit/status/close", "gwf.backends.*.create_backend",
             "gwf.plugins.run.run (body)", "gwf.scheduling.submit_workflow/schedule/submit_backend", "*.compile_script"],
    "stubs": ["subprocess.Popen/shutil.which -> scheduler simulator (vf/world/schedsim.py): documented output formats for the flags gwf passes; the dependency "
              "argument is read by an independent reference reader of each scheduler's syntax (afterok:i:j / -hold_jid i,j / -w 'done(i) && done(j)' / deps=[i,j])",
              "socket.socket -> pool model speaking the worker-pool protocol", "VFS for the tracked-jobs file",
              "workflow loading and entry-point discovery (see vf/world/cmds.py)"],
    "assumptions": ["the scheduler honours the dependency syntax it was given (start_j >= finish_p for every parsed prerequisite p; afterok/done/local never release after a failure)",
                    "one gwf process at a time per project"],
    "outside": ["the schedulers themselves", "job ids outside the digit-string catalogue", "more than 3 prerequisites per job"],
}

IDS = ["7", "42", "77", "100", "1000000"]
FIRST = [0, 78]


def _make_ops(be):
    if be == "slurm":
        return slurm_mod.SlurmOps(ROOT, "full", True, target_defaults=slurm_mod.TARGET_DEFAULTS)
    if be == "sge":
        return sge_mod.SGEOps(ROOT, target_defaults=sge_mod.TARGET_DEFAULTS)
    if be == "lsf":
        return lsf_mod.LSFOps(ROOT, target_defaults=lsf_mod.TARGET_DEFAULTS)
    return local_mod.LocalOps(ROOT, "localhost", 12345, target_defaults={})


# ---------------------------------------------------------------- Q7a/Q7b  submit_target: ids intact, right holding kind, id round trip
def _q7a(k, s0, s1, s2, mc, first):
    be = q.SHARD["be"]
    if not q.in_range(k, 4):
        return q.SKIP
    sels = [s0, s1, s2]
    for i in range(3):
        if not q.in_range(sels[i], len(IDS)):
            return q.SKIP
    if k >= 2 and s0 == s1:
        return q.SKIP
    if k >= 3 and (s0 == s2 or s1 == s2):
        return q.SKIP
    if mc and be != "slurm":
        return q.SKIP
    if mc and q.excluded("C07-slurm-parsable-cluster"):
        return q.SKIP
    if not q.in_range(first, len(FIRST)):
        return q.SKIP
    first = q.pick(FIRST, first)
    ids = [q.pick(IDS, sels[i]) for i in range(k)]
    w = World(be)
    if be == "local":
        ids = [int(x) for x in ids]
        w.pool.next = first
    else:
        w.sim.next_id = first
        w.sim.multi_cluster = mc
    w.install()
    try:
        ops = _make_ops(be)
        t = Target(name="T", inputs=[], outputs=[], options={"cores": 1, "memory": "1g", "queue": "normal"} if be != "local" else {}, working_dir=ROOT, spec="echo hi")
        got = ops.submit_target(t, list(ids))
        jobs = abst.jobs_by_cmd(w)
        if len(jobs) != 1:
            return "expected exactly one job at the scheduler, found %d" % len(jobs)
        j = jobs[0]
        if j["kind"] is not None and str(j["kind"]).startswith("?"):
            return "the scheduler cannot read the dependency argument %r" % (j["kind"][1:],)
        if sorted(map(str, j["deps"])) != sorted(map(str, ids)):
            return "scheduler was told to wait for %s, prerequisites are %s" % (j["deps"], ids)
        if k > 0 and j["kind"] != abst.NEVER_RELEASE_KIND[be]:
            return "holding kind %r, required %r" % (j["kind"], abst.NEVER_RELEASE_KIND[be])
        want = first if be == "local" else str(first)
        if got != want or type(got) is not type(want):
            return "scheduler assigned id %r, backend returned %r" % (want, got)
        return ""
    finally:
        w.uninstall()


def q7a(k: int, s0: int, s1: int, s2: int, mc: bool, first: int) -> str:
    """
    post: _ == ""
    """
    return q.run(_q7a, (k, s0, s1, s2, mc, first))


# ---------------------------------------------------------------- Q7c  TrackingBackend over the real ops, two invocations
def _q7c(d1, d2, stA):
    """Invocation 1 submits A then B (B depending on A iff d1).  Invocation 2 (new backend object built
    from the tracked file) submits C depending on the subset d2 of {A, B}: the scheduler must be told
    exactly the ids it returned for those targets."""
    be = q.SHARD["be"]
    if not (q.in_range(d2, 4) and q.in_range(stA, 2)):
        return q.SKIP
    w = World(be)
    A = w.target("A", [], ["a"])
    B = w.target("B", [], ["b"])
    C = w.target("C", [], ["c"])
    w.install()
    try:
        ctx = w.ctx()
        from gwf.backends import create_backend
        with create_backend(be, working_dir=ROOT, config=ctx.config) as backend:
            backend.submit(A, [])
            backend.submit(B, [A] if d1 else [])
        jobs = abst.jobs_by_cmd(w)
        if [j["name"] for j in jobs] != ["A", "B"]:
            return "first invocation produced jobs %s" % ([j["name"] for j in jobs],)
        idA, idB = jobs[0]["id"], jobs[1]["id"]
        if sorted(map(str, jobs[1]["deps"])) != ([str(idA)] if d1 else []):
            return "B was told to wait for %s, A's job is %s" % (jobs[1]["deps"], idA)
        abst.set_state(w, idA, q.pick(["pending", "running"], stA))
        ctx = w.ctx()
        with create_backend(be, working_dir=ROOT, config=ctx.config) as backend:
            deps = [t for kbit, t in ((1, A), (2, B)) if d2 & kbit]
            from gwf.backends.base import BackendStatus
            stA_seen = backend.status(A)
            backend.submit(C, deps)
        want_state = BackendStatus.SUBMITTED if stA == 0 else BackendStatus.RUNNING
        if stA_seen != want_state:
            return "second invocation sees A (job %s) as %s, scheduler says %s" % (idA, stA_seen, want_state)
        jobs = abst.jobs_by_cmd(w)
        jc = jobs[-1]
        want = [str(i) for kbit, i in ((1, idA), (2, idB)) if d2 & kbit]
        if jc["name"] != "C" or sorted(map(str, jc["deps"])) != sorted(want):
            return "C was told to wait for %s, the ids returned for its dependencies are %s" % (jc["deps"], want)
        if want and jc["kind"] != abst.NEVER_RELEASE_KIND[be]:
            return "holding kind %r" % (jc["kind"],)
        return ""
    finally:
        w.uninstall()


def q7c(d1: bool, d2: int, stA: int) -> str:
    """
    post: _ == ""
    """
    return q.run(_q7c, (d1, d2, stA))


# ---------------------------------------------------------------- Q7d  composition: two `gwf run` invocations, timing consequence
NAMES = ["A", "B", "C", "D"]
DEPS = [[], [0], [1], [0, 1]]          # A -> B -> C ;  D <- (A, B)
OUT = ["a", "b", "c", "d"]


LABELS = {"topo": NAMES, "rev": ["R", "M", "Z", "D"]}      # "rev": the middle target sorts before the root it depends on


def build_world(be, names=NAMES):
    w = World(be)
    w.target(names[0], ["src"], ["a"])
    w.target(names[1], ["a"], ["b"])
    w.target(names[2], ["b"], ["c"])
    w.target(names[3], ["a", "b"], ["d"])
    w.file("src", 5)
    return w


def _q7d(sa, sb, fA, fB, fC, fD, now):
    """Invocation 1: `gwf run <first>` (shard).  The scheduler then moves the accepted jobs to a
    symbolic state.  Invocation 2: `gwf run`.  For every job of invocation 2 and every direct
    dependency that is not complete (in flight from invocation 1 or submitted in invocation 2) the
    parsed prerequisites must contain that dependency's job; hence, for every schedule the
    contract allows (start >= finish of every parsed prerequisite, finish times symbolic), it
    starts after that job finished."""
    be, first = q.SHARD["be"], q.SHARD["first"]
    names = LABELS[q.SHARD.get("lab", "topo")]
    nA, nB = names[0], names[1]
    first = [names[["A", "B", "C", "D"].index(x)] for x in first]
    if not (q.in_range(sa, 5) and q.in_range(sb, 5)):
        return q.SKIP
    fin = [fA, fB, fC, fD]
    for f in fin:
        if not (f >= now):
            return q.SKIP
    if not (now >= 10):
        return q.SKIP
    with q.notrace():                 # concrete prefix: nothing symbolic exists in the world yet
        w = build_world(be, names)
        if q.SHARD.get("old_id"):
            # the first target already has a job id on record from long ago (that job is gone from the scheduler)
            import json as _json
            w.vfs.add(w.tracked_path(), 1, _json.dumps({names[0]: 55 if be == "local" else "55"}))
        w.install()
    try:
        w.concretely(w.run, first)
        jobs1 = abst.jobs_by_cmd(w)
        ids1 = {j["name"]: j["id"] for j in jobs1}
        states = ["pending", "running", "done", "failed", "cancelled"]
        abstract = {nm: "none" for nm in names}
        for nm, s in ((nA, sa), (nB, sb)):
            if nm in ids1:
                abstract[nm] = q.pick(states, s)
            elif s != 0:
                return q.SKIP
        # a job cannot have run before its parsed prerequisite succeeded
        if abstract[nB] in ("running", "done", "failed") and abstract[nA] != "done" and nA in [nm for nm in ids1]:
            return q.SKIP
        for nm in ids1:
            if nm not in (nA, nB):
                abstract[nm] = "pending"          # other jobs of invocation 1 simply stay queued
            abst.set_state(w, ids1[nm], abstract[nm])
            if abstract[nm] == "done":
                w.file(OUT[names.index(nm)], fin[names.index(nm)])
        # finish times respect the contract for invocation-1 jobs
        if abstract[nA] == "done" and abstract[nB] == "done" and not (fB >= fA):
            return q.SKIP
        n1 = len(jobs1)
        if q.SHARD.get("mid") and nA in ids1 and abstract[nA] in ("pending", "running") and be != "local":
            # an invocation in between (gwf status) happens at a moment when the scheduler's answer about A's job is unhelpful
            # (SGE error state, Slurm: left the queue and not yet in accounting, LSF: empty bjobs answer); afterwards all is as before
            from vf.props.C08 import _transient
            j = w.sim.jobs[str(ids1[nA])]
            saved = (j.state, j.in_queue, j.acct)
            _transient(w, str(ids1[nA]))
            w.status()
            j.state, j.in_queue, j.acct = saved
        w.run()
        jobs2 = abst.jobs_by_cmd(w)[n1:]
        bstate = [abst.EXPECT[be][abstract[nm]] for nm in names]
        stale = []
        for i, nm in enumerate(names):
            stale.append(abstract[nm] != "done")     # outputs exist only for finished jobs; mtimes ordered by the contract
        cone, st, pre, sub = P.plan(4, DEPS, stale, bstate, [2, 3])
        latest = dict(ids1)
        seen = []
        for j in jobs2:
            i = names.index(j["name"])
            if i not in sub:
                return "second run submitted %s (status %s)" % (j["name"], st[i])
            required = [latest[names[d]] for d in pre[i]]
            # timing consequence, solver-decided: earliest legal start = max finish of parsed prerequisites
            start = now
            for p in j["deps"]:
                for nm2, jid in latest.items():
                    if str(jid) == str(p) and fin[names.index(nm2)] > start:
                        start = fin[names.index(nm2)]
            for d in pre[i]:
                if not (start >= fin[d]):
                    return "job of %s may start at %s before the job of its dependency %s finishes" % (j["name"], "t", names[d])
            if sorted(map(str, j["deps"])) != sorted(map(str, required)):
                return "job of %s told to wait for %s, required %s" % (j["name"], j["deps"], required)
            if required and j["kind"] != abst.NEVER_RELEASE_KIND[be]:
                return "holding kind %r" % (j["kind"],)
            latest[j["name"]] = j["id"]
            seen.append(i)
        if sorted(seen) != sorted(sub):
            return "second run submitted %s, expected %s" % ([names[i] for i in seen], [names[i] for i in sub])
        return ""
    finally:
        w.uninstall()


def q7d(sa: int, sb: int, fA: int, fB: int, fC: int, fD: int, now: int) -> str:
    """
    post: _ == ""
    """
    return q.run(_q7d, (sa, sb, fA, fB, fC, fD, now))


BES = ["slurm", "sge", "lsf", "local"]

QUERIES = [
    {"name": "Q7a", "fn": q7a, "shards": [{"be": b} for b in BES], "timeout": {"quick": 400, "thorough": 900},
     "bound": "0..3 prerequisites, ids from the catalogue %s (pairwise distinct; includes prefix pairs 7/77), first id assigned by the scheduler from {0, 78}, "
              "Slurm with and without the multi-cluster output format '<id>;<cluster>'" % IDS},
    {"name": "Q7c", "fn": q7c, "shards": [{"be": b} for b in BES], "timeout": {"quick": 400, "thorough": 900},
     "bound": "two invocations, 3 targets, every dependency subset; A pending or running at the second invocation"},
    {"name": "Q7d", "fn": q7d, "shards": {"quick": [{"be": b, "first": f} for b in BES for f in (["A"], ["B"])] + [{"be": "slurm", "first": f, "lab": "rev"} for f in (["A"], [])] + [{"be": b, "first": ["A"], "mid": True} for b in ("lsf", "sge", "slurm")] + [{"be": b, "first": ["A"], "old_id": True} for b in ("slurm", "lsf")],
                                          "thorough": [{"be": b, "first": f, "lab": lab} for b in BES for f in (["A"], ["B"], ["C"], []) for lab in ("topo", "rev")] + [{"be": b, "first": f, "mid": True} for b in ("lsf", "sge", "slurm") for f in (["A"], ["B"])] + [{"be": b, "first": f, "old_id": True} for b in BES for f in (["A"], ["B"])]},
     "timeout": {"quick": 600, "thorough": 1800},
     "bound": "4 targets A->B->C, D<-(A,B) (a shortcut edge; in the rev shards the names are such that the middle target sorts before the root); invocation 1 = run of a named target, then each accepted job in one of 5 abstract states (symbolic), finish times symbolic ints; optionally an old job id of A on record before invocation 1; optionally a status invocation while the scheduler's answer about A's job is momentarily unhelpful; invocation 2 = run of everything"},
]


# ---------------------------------------------------------------- Q7p  the local pool honours the prerequisites it was given
from vf.props import localpool as LP


def _q7p(e0, e1, e2, e3, e4, e5, f0, f1, f2, f3, f4, f5, rc0, rc1, rc2, rc3, sf, lf):
    r = LP.pool_body((e0, e1, e2, e3, e4, e5, f0, f1, f2, f3, f4, f5, rc0, rc1, rc2, rc3, sf, lf))
    if r is None or r == "":
        return r
    if r.startswith("unexpected"):
        return r
    mine = [part for part in r.split(" | ") if part.startswith("[C11]")]
    return " | ".join(mine)


def q7p(e0: int, e1: int, e2: int, e3: int, e4: int, e5: int, f0: bool, f1: bool, f2: bool, f3: bool, f4: bool, f5: bool,
        rc0: int, rc1: int, rc2: int, rc3: int, sf: int, lf: int) -> str:
    """
    post: _ == ""
    """
    return q.run(_q7p, (e0, e1, e2, e3, e4, e5, f0, f1, f2, f3, f4, f5, rc0, rc1, rc2, rc3, sf, lf))


def _sp(shards):
    out = []
    for sh in shards:
        out.extend(LP.split(sh))
    return out


QUERIES.append(
    {"name": "Q7p", "fn": q7p,
     "shards": {"quick": _sp([{"scen": "join", "cores": 2, "steps": 2}, {"scen": "late-join", "cores": 2, "steps": 3}]),
                "thorough": _sp([{"scen": s, "cores": c, "steps": 3} for s in ("join", "late-join", "chain", "fork") for c in (1, 2)])},
     "timeout": {"quick": 900, "thorough": 3000},
     "bound": "the real worker pool (vf/props/localpool.py) with the dependency ids gwf hands it: fan-in of two prerequisites submitted together or late (after one prerequisite already failed while the other still runs), "
              "symbolic exit codes and event script; a task is started only when every prerequisite task completed successfully"})
META["real"] = META["real"] + LP.META_COMMON["real"]
META["stubs"] = META["stubs"] + LP.META_COMMON["stubs"]


# ---------------------------------------------------------------- Q7s  ids as symbolic digit strings (string theory), Slurm / SGE / LSF argument construction
def _q7s(a, b):
    """Two prerequisite ids as symbolic strings of 1..3 digits: the dependency argument must contain both,
    whole, separated the way the scheduler's syntax requires, and nothing else."""
    be = q.SHARD["be"]
    if not (1 <= len(a) and len(a) <= q.SHARD["maxlen"] and 1 <= len(b) and len(b) <= q.SHARD["maxlen"]):
        return q.SKIP
    for s_ in (a, b):
        for ch in s_:
            if not ("0" <= ch and ch <= "9"):
                return q.SKIP
    if a == b:
        return q.SKIP
    captured = []

    def fake_call(exe, *args, input=None):
        captured.append((exe, args))
        return {"sbatch": "77\n", "qsub": "77\n", "bsub": "Job <77> is submitted to queue <normal>.\n"}[exe]
    mod = {"slurm": slurm_mod, "sge": sge_mod, "lsf": lsf_mod}[be]
    real_call = mod.call
    mod.call = fake_call
    vfs_w = vfs.VFS()
    vfs_w.dirs.update({ROOT, ROOT + "/.gwf", ROOT + "/.gwf/logs"})
    vfs.install(vfs_w)
    try:
        ops = _make_ops(be)
        t = T7S
        t.options = {"cores": 1, "memory": "1g", "queue": "normal"}
        ops.submit_target(t, [a, b])
        exe, args = captured[-1]
        if be == "slurm":
            want = ["--parsable", "--dependency=afterok:" + a + ":" + b]
        elif be == "sge":
            want = ["-terse", "-hold_jid", a + "," + b]
        else:
            want = ["-w", "done(" + a + ") && done(" + b + ")"]
        if list(args) != want:
            return "scheduler arguments %r, expected %r" % (list(args), want)
        return ""
    finally:
        mod.call = real_call
        vfs.uninstall()


def q7s(a: str, b: str) -> str:
    """
    post: _ == ""
    """
    return q.run(_q7s, (a, b))


T7S = Target(name="T", inputs=[], outputs=[], options={}, working_dir=ROOT, spec="echo hi")

QUERIES.append(
    {"name": "Q7s", "fn": q7s, "shards": {"quick": [{"be": "slurm", "maxlen": 2}], "thorough": [{"be": b, "maxlen": 2} for b in ("slurm", "sge", "lsf")] + [{"be": "slurm", "maxlen": 3}]}, "timeout": 900,
     "bound": "two prerequisite ids as symbolic digit strings of length 1..2 (Slurm in quick; all three and length 3 for Slurm in thorough) (string theory); the argument vector handed to sbatch/qsub/bsub equals the scheduler's syntax built from exactly these ids "
              "(here backends.<x>.call is replaced by a recorder, the only place where a module-level name of /repo is rebound)"})
