"""C02  Submission plan: stale cone only, once each, deps first, exact prerequisites."""
import ast
import fnmatch
import inspect
import logging

from vf import q
from vf.oracles import plan as P

from gwf import scheduling
from gwf.backends.base import BackendStatus, TrackingBackend
from gwf.core import CachedFilesystem, Graph, NoopSpecHashes, Status, Target
from gwf.filtering import filter_names
from gwf.scheduling import get_status_map, submit_workflow

logging.disable(logging.CRITICAL)

META = {
    "solver_reasoned": 'none beyond booleans: stale bit per target (bool) and selectors (backend state per target, dependency subsets); CrossHair enumerates the feasible combinations exhaustively per DAG shape.',
    "real": ["gwf.scheduling.schedule", "gwf.scheduling.submit_workflow", "gwf.scheduling.submit_backend", "gwf.scheduling.should_run",
             "gwf.scheduling.get_status_map", "gwf.filtering.filter_names/NameFilter", "gwf.core.Graph.from_targets", "gwf.core.Graph.endpoints",
             "gwf.backends.base.TrackingBackend.submit/status"],
    "stubs": ["backend = recording object (status per target from the selector, submit recorded) for Q2a; recording ops object under the real TrackingBackend for Q2b",
              "staleness of target i is realised as 'its single output file is missing' in a pre-filled CachedFilesystem (real should_run runs)"],
    "assumptions": ["seam: schedule() reaches files and spec hashes only through should_run(target, fs, spec_hashes) (checked on the AST each run)"],
    "outside": ["more than 3 (quick) / 4 (thorough) targets", "name labellings other than topological and reversed", "selection patterns outside the catalogue"],
}

BS = [BackendStatus.UNKNOWN, BackendStatus.SUBMITTED, BackendStatus.RUNNING, BackendStatus.COMPLETED, BackendStatus.FAILED, BackendStatus.CANCELLED]


def seam_ok():
    """schedule() must touch fs/spec_hashes only by calling should_run(target, fs, spec_hashes)."""
    src = inspect.getsource(scheduling.schedule)
    tree = ast.parse(src)
    for node in ast.walk(tree):
        if isinstance(node, ast.Name) and node.id in ("fs", "spec_hashes"):
            pass
    uses = []
    for node in ast.walk(tree):
        if isinstance(node, ast.Call):
            for a in list(node.args) + [k.value for k in node.keywords]:
                if isinstance(a, ast.Name) and a.id in ("fs", "spec_hashes"):
                    fn = node.func.id if isinstance(node.func, ast.Name) else None
                    uses.append(fn)
        if isinstance(node, ast.Attribute) and isinstance(node.value, ast.Name) and node.value.id in ("fs", "spec_hashes"):
            return False
    return all(u == "should_run" for u in uses)


class RecBackend:
    target_defaults = {}

    def __init__(self, states):
        self.states = states
        self.submitted = []
        self.queried = []

    def status(self, target):
        self.queried.append(target.name)
        return self.states[target.name]

    def submit(self, target, dependencies):
        self.submitted.append((target.name, [d.name for d in dependencies]))


def names_for(n, labelling):
    if labelling == "topo":
        return ["T%d" % i for i in range(n)]
    return ["T%d" % (n - 1 - i) for i in range(n)]


SELECTIONS = ["default", "exact-last", "star", "class", "nomatch", "two"]


def patterns_for(sel, names):
    n = len(names)
    if sel == "default":
        return None
    if sel == "exact-last":
        return [names[n - 1]]
    if sel == "star":
        return ["T*"]
    if sel == "class":
        return ["T[01]"]
    if sel == "nomatch":
        return ["X*"]
    if sel == "two":
        return [names[0], "T1*"]
    raise KeyError(sel)


G = {}


def build_graph(n, deps, names):
    """Concrete part of the world (does not depend on symbolic values): built once per shard."""
    targets = {}
    for i in range(n):
        ins = ["o%d" % d for d in deps[i]] or ["src"]
        targets[names[i]] = Target(name=names[i], inputs=ins, outputs=["o%d" % i], options={}, working_dir="/vfs/p", spec="run %d" % i)
    graph = Graph.from_targets(targets, CachedFilesystem(cache={"/vfs/p/src": 5}))
    return targets, graph


class LazyCache(dict):
    """The pre-filled cache of CachedFilesystem, deciding 'output i is missing' (= stale bit i) only
    when gwf actually looks the file up, so that unneeded stale bits do not fork paths."""

    def __init__(self, stale):
        dict.__init__(self)
        self.stale = stale

    def __contains__(self, path):
        return True

    def __getitem__(self, path):
        if path == "/vfs/p/src":
            return 5
        i = int(path[len("/vfs/p/o"):])
        return None if self.stale[i] else 5


def build(n, deps, names, stale):
    return G["targets"], G["graph"], CachedFilesystem(cache=LazyCache(stale))


def _q2a(s0, s1, s2, s3, b0, b1, b2, b3):
    n, deps, lab, sel = q.SHARD["n"], q.SHARD["deps"], q.SHARD["lab"], q.SHARD["sel"]
    stale = [s0, s1, s2, s3][:n]
    bsel = [b0, b1, b2, b3][:n]
    fix = q.SHARD.get("fix_b0")
    if fix is not None and b0 != fix:
        return q.SKIP
    for b in bsel:
        if not q.in_range(b, 6):
            return q.SKIP
    names = names_for(n, lab)
    targets, graph, fs = build(n, deps, names, stale)
    states = {names[i]: q.pick(BS, bsel[i]) for i in range(n)}
    pats = patterns_for(sel, names)
    with q.notrace():     # concrete values only: real filter code runs untraced (exact)
        if pats is None:
            requested_t = graph.endpoints()
            requested = P.endpoints(n, deps)
        else:
            requested_t = filter_names(graph, pats)
            requested = [i for i in range(n) if any(fnmatch.fnmatchcase(names[i], p) for p in pats)]
        sel_ok = sorted(t.name for t in requested_t) == sorted(names[i] for i in requested)
        cone0 = sorted(P.closure(deps, requested))
    if not sel_ok:
        return "selection %s resolved to %s, expected %s" % (pats, sorted(t.name for t in requested_t), sorted(names[i] for i in requested))
    cone, st, pre, sub = P.plan(n, deps, stale, bsel, requested, cone0)
    be = RecBackend(states)
    submit_workflow(requested_t, graph, fs, NoopSpecHashes(), be)
    msg = P.check_trace(names, deps, cone, st, pre, sub, be.submitted, be.queried)
    if msg:
        return "run: " + msg
    # the status map must realise the same st (C05 uses this too)
    be2 = RecBackend(states)
    smap = get_status_map(graph, fs, NoopSpecHashes(), be2, endpoints=requested_t)
    if be2.submitted:
        return "get_status_map submitted something"
    got = {t.name: s.name for t, s in smap.items()}
    want = {names[i]: st[i] for i in cone}
    if got != want:
        return "status map %s, expected %s" % (sorted(got.items()), sorted(want.items()))
    return ""


def q2a(s0: bool, s1: bool, s2: bool, s3: bool, b0: int, b1: int, b2: int, b3: int) -> str:
    """
    post: _ == ""
    """
    return q.run(_q2a, (s0, s1, s2, s3, b0, b1, b2, b3))


def setup_q2a(shard):
    if not seam_ok():
        raise SystemExit("seam lost: schedule() uses fs/spec_hashes other than via should_run")
    G["targets"], G["graph"] = build_graph(shard["n"], shard["deps"], names_for(shard["n"], shard["lab"]))


# ---------------------------------------------------------------- Q2b TrackingBackend: dependency targets -> their tracked ids
class RecOps:
    target_defaults = {}

    def __init__(self, next_id):
        self.next_id = next_id
        self.calls = []

    def get_job_states(self, ids):
        return {}

    def submit_target(self, target, dependency_ids):
        self.calls.append((target.name, list(dependency_ids)))
        self.next_id = self.next_id + 1
        return str(self.next_id)

    def close(self):
        pass


TB_TARGETS = {nm: Target(name=nm, inputs=[], outputs=[], options={}, working_dir="/vfs/p") for nm in ("A", "B", "C", "D", "E")}


def _q2b(first, second, resub):
    """A, B, C tracked from an earlier invocation; submit D depending on a symbolic subset of
    them; maybe resubmit A; submit E depending on a symbolic subset of {A, B, D}: the ids handed
    to ops are exactly the currently tracked ids of the named dependency targets, in order, and
    a new id replaces the old one."""
    if not (q.in_range(first, 8) and q.in_range(second, 8)):
        return q.SKIP
    tb = TrackingBackend.__new__(TrackingBackend)
    ops = RecOps(9000)
    tracked = {"A": "311", "B": "312", "C": "313"}
    object.__setattr__(tb, "working_dir", "/vfs/none")
    object.__setattr__(tb, "name", "rec")
    object.__setattr__(tb, "ops", ops)
    object.__setattr__(tb, "_tracked_jobs", dict(tracked))
    object.__setattr__(tb, "_job_states", {})
    T = TB_TARGETS
    model = dict(tracked)
    subset = [nm for k, nm in enumerate(("A", "B", "C")) if (first >> k) & 1]
    tb.submit(T["D"], [T[nm] for nm in subset])
    if ops.calls[-1] != ("D", [model[nm] for nm in subset]):
        return "D submitted with ids %s, expected %s" % (ops.calls[-1][1], [model[nm] for nm in subset])
    model["D"] = "9001"
    if tb._tracked_jobs.get("D") != "9001":
        return "D tracked as %r, the scheduler returned '9001'" % (tb._tracked_jobs.get("D"),)
    if tb.status(T["D"]) != BackendStatus.SUBMITTED:
        return "freshly submitted D reported %s" % tb.status(T["D"])
    if resub:
        tb.submit(T["A"], [])
        model["A"] = "9002"
    subset2 = [nm for k, nm in enumerate(("A", "B", "D")) if (second >> k) & 1]
    tb.submit(T["E"], [T[nm] for nm in subset2])
    if ops.calls[-1] != ("E", [model[nm] for nm in subset2]):
        return "E submitted with ids %s, expected %s (current ids of %s)" % (ops.calls[-1][1], [model[nm] for nm in subset2], subset2)
    model["E"] = ops.calls and str(ops.next_id)
    if dict(tb._tracked_jobs) != model:
        return "tracked map %s, expected %s" % (tb._tracked_jobs, model)
    return ""


def q2b(first: int, second: int, resub: bool) -> str:
    """
    post: _ == ""
    """
    return q.run(_q2b, (first, second, resub))


def _shards(n, labs, sels, shapes=None):
    out = []
    for deps in (shapes if shapes is not None else P.shapes(n)):
        for lab in labs:
            for sel in sels:
                out.append({"n": n, "deps": deps, "lab": lab, "sel": sel})
    return out


_N3_KEY = [[[], [0], [1]], [[], [0], [0]], [[], [], [0, 1]], [[], [], []]]
_DIAMOND = [[], [0], [0], [1, 2]]
_N4_KEY = [_DIAMOND, [[], [0], [1], [2]], [[], [], [0, 1], [2]], [[], [0], [0], []], [[], [], [], [0, 1, 2]], [[], [0], [], [1, 2]]]

QUERIES = [
    {"name": "Q2a", "fn": q2a, "setup": setup_q2a,
     "shards": {"quick": _shards(3, ["topo", "rev"], ["default"]) + _shards(3, ["topo"], ["exact-last", "star", "class", "nomatch", "two"], shapes=_N3_KEY)
                         + [dict(sh, fix_b0=k) for sh in _shards(4, ["topo"], ["default"], shapes=[_DIAMOND]) for k in range(6)],
                "thorough": _shards(3, ["topo", "rev"], SELECTIONS) + [dict(sh, fix_b0=k) for sh in _shards(4, ["topo", "rev"], ["default"]) + _shards(4, ["topo"], ["exact-last", "class", "two"], shapes=_N4_KEY) for k in range(6)]},
     "timeout": {"quick": 300, "thorough": 1800},
     "bound": "quick: all 8 DAG shapes on 3 targets x 2 name labellings (default endpoints) + 4 shapes (chain, fork, join, independent) x 5 pattern selections + the 4-diamond; "
              "thorough: all shapes on 3 x 2 labellings x 6 selections, all 64 shapes on 4 x 2 labellings (default selection), 6 key shapes on 4 x 3 selections; "
              "stale bit (bool) and backend state (6 values) per target symbolic"},
    {"name": "Q2b", "fn": q2b, "shards": [{}], "timeout": 300,
     "bound": "3 tracked targets, symbolic dependency subset (8) for a first submission, optional resubmission of a tracked target, symbolic dependency subset (8) for a second submission"},
]


# ---------------------------------------------------------------- Q2c  three invocations through the real TrackingBackend and the Slurm simulator
from vf.world import abst
from vf.world.proj import Project

ST1 = ["pending", "running", "failed", "cancelled", "done"]


def _q2c(sa1, sb1, sa2, sb2):
    """run; every accepted job moves to a symbolic state; run; new jobs move to pending/running; run.
    At every invocation the submissions (names and prerequisite ids) must be the plan for the state of
    each target's LATEST accepted job."""
    sh = q.SHARD
    if not (q.in_range(sa1, 5) and q.in_range(sb1, 5) and q.in_range(sa2, 2) and q.in_range(sb2, 2)):
        return q.SKIP
    if "sa1" in sh and sa1 != sh["sa1"]:
        return q.SKIP
    s1 = {"A": q.pick(ST1, sa1), "B": q.pick(ST1, sb1)}
    s2 = {"A": q.pick(["pending", "running"], sa2), "B": q.pick(["pending", "running"], sb2)}
    be = sh.get("be", "slurm")
    with q.notrace():
        pr = Project("chain2", be)
        pr.add_sources(5)
        w = pr.w
        w.install()
    try:
        latest, state = {}, {}
        clock = [10]

        def one_run(label):
            bstate = [abst.EXPECT[be][state.get(nm, "none")] for nm in pr.names]
            stale = [pr.stale_by_files(i) for i in range(pr.n)]
            cone, st, pre, sub = P.plan(pr.n, pr.deps, stale, bstate, P.endpoints(pr.n, pr.deps))
            n0 = len(abst.jobs_by_cmd(w))
            w.run()
            new = abst.jobs_by_cmd(w)[n0:]
            if sorted(j["name"] for j in new) != sorted(pr.names[i] for i in sub):
                return "%s: submitted %s, expected %s (latest jobs %s in states %s)" % (label, [j["name"] for j in new], [pr.names[i] for i in sub], latest, state), new
            for j in new:
                i = pr.idx(j["name"])
                req = sorted(str(latest[pr.names[d]]) for d in pre[i])
                if sorted(map(str, j["deps"])) != req:
                    return "%s: %s submitted with prerequisites %s, expected %s" % (label, j["name"], j["deps"], req), new
                latest[j["name"]] = j["id"]
                state[j["name"]] = "pending"
            return "", new

        msg, new = one_run("first run")
        if msg:
            return msg
        for j in new:
            st_ = s1[j["name"]]
            if j["name"] == "B" and st_ in ("running", "done", "failed") and s1["A"] != "done":
                return q.SKIP        # B cannot have started before A succeeded
            state[j["name"]] = st_
            abst.set_state(w, j["id"], st_)
            if st_ == "done":
                clock[0] += 10
                w.file(pr.outputs[pr.idx(j["name"])][0], clock[0], "made")
        msg, new = one_run("second run")
        if msg:
            return msg
        for j in new:
            state[j["name"]] = s2[j["name"]]
            if j["name"] == "B" and s2["B"] == "running" and state.get("A") != "done":
                state["B"] = "pending"
            abst.set_state(w, j["id"], state[j["name"]])
        msg, new = one_run("third run")
        if msg:
            return msg
        return ""
    finally:
        w.uninstall()


def q2c(sa1: int, sb1: int, sa2: int, sb2: int) -> str:
    """
    post: _ == ""
    """
    return q.run(_q2c, (sa1, sb1, sa2, sb2))


QUERIES.append(
    {"name": "Q2c", "fn": q2c,
     "shards": {"quick": [{"sa1": k} for k in range(5)] + [{"sa1": k, "be": "local"} for k in (0, 1, 2)], "thorough": [{"sa1": k, "be": b} for k in range(5) for b in ("slurm", "sge", "lsf", "local")]},
     "timeout": {"quick": 900, "thorough": 1800},
     "bound": "three `gwf run` invocations on a chain of 2 through the real TrackingBackend (state file on the VFS) and the simulator (Slurm, and the local pool whose first task id is 0; thorough: all four backends): after the first run each accepted job is pending / running / failed / cancelled / done (symbolic), "
              "after the second each new job pending or running; submissions and prerequisite ids must follow the plan for each target's latest accepted job"})
META["real"] = META["real"] + ["gwf.plugins.run.run (body)", "gwf.backends.base.TrackingBackend.__init__/close (persistence across invocations)", "gwf.backends.slurm.*"]


# ---------------------------------------------------------------- Q2d a rejected submission never lets dependents wait on a job of an earlier run
def _q2d(s1a, s1b, kfault, kind):
    """Run 1 submits A and B (chain); both jobs then end (failed / cancelled / done with the output removed again, symbolic).
    In run 2 the scheduler rejects the kfault-th submission (three ways of failing).  Whatever run 2 still submits, every
    prerequisite it names is a job that was accepted in run 2 or is still live - never a finished job of run 1."""
    sh = q.SHARD
    if not (q.in_range(s1a, 3) and q.in_range(s1b, 3) and q.in_range(kfault, 3) and q.in_range(kind, 3)):
        return q.SKIP
    ends = ["failed", "cancelled", "done"]
    ea, eb = q.pick(ends, s1a), q.pick(ends, s1b)
    kf, kd = q.pick([0, 1, 2], kfault), q.pick([0, 1, 2], kind)
    if eb == "done" and ea != "done":
        return q.SKIP        # B cannot have succeeded if A did not
    be = sh.get("be", "slurm")
    with q.notrace():
        pr = Project("chain2", be)
        pr.add_sources(5)
        w = pr.w
        w.install()
    try:
        w.concretely(w.run)
        jobs1 = abst.jobs_by_cmd(w)
        for j, e in zip(jobs1, (ea, eb)):
            abst.set_state(w, j["id"], e)        # (a job that is done leaves no output here: the file was removed again, so the target is stale)
        dead = set(str(j["id"]) for j in jobs1)
        if kf:
            w.sim.fault_only = ({"slurm": "sbatch", "sge": "qsub", "lsf": "bsub"}[be],)
            w.sim.ncmd = 0
            w.sim.fault_at = kf
            w.sim.fault_kind = kd
        try:
            w.run()
        except Exception:
            pass
        w.sim.fault_at = None
        jobs2 = abst.jobs_by_cmd(w)[len(jobs1):]
        new_ids = set(str(j["id"]) for j in jobs2)
        for j in jobs2:
            for d in j["deps"]:
                if str(d) in dead:
                    return "run 2 (submission %d rejected, fault kind %d) submitted %s waiting for job %s, a %s job of run 1" % (kf, kd, j["name"], d, dict(zip([str(x["id"]) for x in jobs1], (ea, eb)))[str(d)])
                if str(d) not in new_ids:
                    return "run 2 submitted %s waiting for an unknown job %s" % (j["name"], d)
        names2 = [j["name"] for j in jobs2]
        if "B" in names2 and "A" not in names2:
            return "run 2 submitted B although the submission of its stale dependency A was not accepted"
        return ""
    finally:
        w.uninstall()


def q2d(s1a: int, s1b: int, kfault: int, kind: int) -> str:
    """
    post: _ == ""
    """
    return q.run(_q2d, (s1a, s1b, kfault, kind))


QUERIES.append(
    {"name": "Q2d", "fn": q2d, "shards": {"quick": [{}], "thorough": [{"be": b} for b in ("slurm", "sge", "lsf")]}, "timeout": {"quick": 600, "thorough": 900},
     "bound": "chain of 2, two invocations: the jobs of the first end failed / cancelled / done-but-stale (symbolic), the scheduler rejects the 1st or 2nd submission of the second in one of 3 ways, or none"})


# ---------------------------------------------------------------- Q2e a cancelled job makes its target due again, whatever its files look like
def _q2e(sa, fresh_a, which, be_i):
    """run (A, B accepted); A's job is pending or running - and may already have (re)written its output; `gwf cancel`
    of A, of B or of both through the real command; then run.  The plan is the one for each target's latest job:
    a cancelled job means the target is submitted again, with the right prerequisites."""
    if not (q.in_range(sa, 2) and q.in_range(which, 3) and q.in_range(be_i, 2)):
        return q.SKIP
    be = q.pick(["slurm", "lsf"], be_i)
    if "be" in q.SHARD and be != q.SHARD["be"]:
        return q.SKIP
    st_a = q.pick(["pending", "running"], sa)
    sel = q.pick([("A",), ("B",), ("A", "B")], which)
    fresh_a = True if fresh_a else False
    with q.notrace():
        pr = Project("chain2", be)
        pr.add_sources(5)
        w = pr.w
        w.install()
    try:
        w.concretely(w.run)
        jobs1 = abst.jobs_by_cmd(w)
        ids = {j["name"]: j["id"] for j in jobs1}
        abst.set_state(w, ids["A"], st_a)
        if fresh_a and st_a == "running":
            w.file("a", 50, "written by the running job before it was cancelled")
        w.cancel(sel, True)
        cancelled = [nm for nm in sel]
        state = {"A": st_a, "B": "pending"}
        for nm in cancelled:
            state[nm] = "cancelled"
        bstate = [abst.EXPECT[be][state[nm]] for nm in pr.names]
        stale = [pr.stale_by_files(i) for i in range(pr.n)]
        cone, st, pre, sub = P.plan(pr.n, pr.deps, stale, bstate, P.endpoints(pr.n, pr.deps))
        n0 = len(abst.jobs_by_cmd(w))
        w.run()
        new = abst.jobs_by_cmd(w)[n0:]
        if sorted(j["name"] for j in new) != sorted(pr.names[i] for i in sub):
            return "after cancel %s (A was %s%s) the next run submitted %s, expected %s" % (sel, st_a, ", its output already rewritten" if fresh_a and st_a == "running" else "", [j["name"] for j in new], [pr.names[i] for i in sub])
        latest = dict(ids)
        for j in new:
            i = pr.idx(j["name"])
            req = sorted(str(latest[pr.names[d]]) for d in pre[i])
            if sorted(map(str, j["deps"])) != req:
                return "after cancel %s: %s submitted with prerequisites %s, expected %s" % (sel, j["name"], j["deps"], req)
            latest[j["name"]] = j["id"]
        return ""
    finally:
        w.uninstall()


def q2e(sa: int, fresh_a: bool, which: int, be_i: int) -> str:
    """
    post: _ == ""
    """
    return q.run(_q2e, (sa, fresh_a, which, be_i))


QUERIES.append(
    {"name": "Q2e", "fn": q2e, "shards": [{"be": "slurm"}, {"be": "lsf"}], "timeout": 600,
     "bound": "chain of 2: run, A's job pending or running (its output possibly rewritten already), `gwf cancel` of A / B / both through the real command, run; Slurm and LSF"})
