"""C05  status, dry-run and run agree, and the two previews change nothing."""
import json
import logging

from vf import q
from vf.oracles import plan as P
from vf.world import abst
from vf.world.cmds import ROOT, CAPTURE
from vf.world.proj import Project

META = {
    "solver_reasoned": 'existence bits and selectors (abstract job states, filter combination per shard).',
    "real": ["gwf.plugins.status.status/print_table/print_summary (bodies)", "gwf.plugins.run.run (body) incl. --dry-run", "gwf.scheduling.get_status_map/submit_workflow/schedule/should_run/"
             "_submit_dryrun/submit_backend", "gwf.filtering.StatusFilter/NameFilter/EndpointFilter/filter_generic", "gwf.backends.base.TrackingBackend.__init__/close",
             "gwf.core.FileSpecHashes.__init__/close", "gwf.plugins.run.clean_logs (guard)", "gwf.backends.slurm.* / sge / lsf / local ops (state queries, submission)"],
    "stubs": ["VFS", "scheduler simulator / pool model", "workflow loading, entry-point discovery, click.echo captured (vf/world/cmds.py)"],
    "assumptions": ["no workflow file is dated after the start of the command", "one gwf process at a time per project"],
    "outside": ["more than 3-4 targets", "filter combinations outside the listed shards (quick)"],
}

STATES4 = ["none", "running", "failed", "done"]
STATES6 = ["none", "pending", "running", "done", "failed", "cancelled"]
SSETS = [(), ("shouldrun",), ("completed", "running"), ("failed", "cancelled", "submitted")]
PATS = [(), ("A",), ("B*", "C")]
STATUS_ORDER = ["shouldrun", "submitted", "running", "completed", "failed", "cancelled"]


def _setup(shape, be, ea, eb, ec, ja, jb, states, hashing=False, hash_sit=0, c_state="none", mtimes=None):
    with q.notrace():
        pr = Project(shape, be, hashing=hashing)
        pr.add_sources(5)
        if mtimes is None:
            for k, (rel, e) in enumerate((("a", ea), ("b", eb), ("c", ec))):
                if e:
                    pr.w.file(rel, 6 + k, "out " + rel)
    if mtimes is not None:            # symbolic modification times enter the world: traced from here on
        for k, (rel, e) in enumerate((("a", ea), ("b", eb), ("c", ec))):
            if e:
                pr.w.file(rel, mtimes[k], "out " + rel)
    with q.notrace() if mtimes is None else _nullctx():
        for nm, j, jid in (("A", ja, "0" if be == "local" else "11"), ("B", jb, "12")):     # a fresh worker pool numbers its tasks from 0
            if states[j] != "none":
                pr.add_tracked(nm, jid, states[j])
        if c_state != "none":
            pr.add_tracked("C", "13", c_state)
        pr.write_tracked()
        pr.w.file(".gwf/logs/Gone.stdout", 1, "log of a removed target")
        pr.w.file(".gwf/logs/A.stdout", 1, "log of A")
        if hashing and hash_sit:
            rec = {"A": pr.current_hash("A")}
            if hash_sit == 2:
                rec["B"] = "0" * 40
            pr.write_hashes(rec)
        pr.w.install()
    return pr


class _nullctx:
    def __enter__(self):
        return self

    def __exit__(self, *a):
        return False


def _oracle(pr, be, abstract, chg=None):
    bstate = [abst.EXPECT[be][abstract.get(nm, "none")] for nm in pr.names]
    stale = [pr.stale_by_files(i) or bool(chg and chg.get(pr.names[i])) for i in range(pr.n)]
    return bstate, stale


# ---------------------------------------------------------------- Q5b filters and formats
CSTATES = ["none", "failed", "cancelled"]


def _q5b(ea, eb, ec, ja, jb, jc):
    sh = q.SHARD
    states = STATES6 if sh.get("six") else STATES4
    if not (q.in_range(ja, len(states)) and q.in_range(jb, len(states)) and q.in_range(jc, 3)):
        return q.SKIP
    if not sh["e"] and jc != 0:
        return q.SKIP        # the endpoint's own earlier job is varied in the --endpoints shards
    jc = q.pick([0, 1, 2], jc)
    ea, eb, ec = (True if ea else False), (True if eb else False), (True if ec else False)
    ja, jb = q.pick(list(range(len(states))), ja), q.pick(list(range(len(states))), jb)
    be = sh.get("be", "slurm")
    pr = _setup(sh["shape"], be, ea, eb, ec, ja, jb, states, c_state=CSTATES[jc])
    try:
        abstract = {"A": states[ja], "B": states[jb], "C": CSTATES[jc]}
        bstate, stale = _oracle(pr, be, abstract)
        cone, st, pre, sub = P.plan(pr.n, pr.deps, stale, bstate, P.endpoints(pr.n, pr.deps))
        full = {pr.names[i]: st[i].lower() for i in cone}
        sset, pats, endp, fmt = SSETS[sh["s"]], PATS[sh["p"]], sh["e"], sh["f"]
        import fnmatch
        ends = [pr.names[i] for i in P.endpoints(pr.n, pr.deps)]
        want = {}
        for nm, s in full.items():
            if sset and s not in sset:
                continue
            if pats and not any(fnmatch.fnmatchcase(nm, p) for p in pats):
                continue
            if endp and nm not in ends:
                continue
            want[nm] = s
        lines = pr.w.status(targets=pats, status=sset, endpoints=endp, format=fmt)
        if fmt == "default":
            got = {}
            order = []
            for line in lines:
                parts = str(line).split()
                got[parts[1]] = parts[2]
                order.append(parts[1])
            if got != want:
                return "status -s %s %s%s shows %s, expected %s (job states %s, files a/b/c present %s)" % (sset, pats, " --endpoints" if endp else "", got, want, abstract, (ea, eb, ec))
            if order != [nm for nm in pr.names if nm in want]:
                return "rows in order %s, creation order is %s" % (order, pr.names)
        else:
            counts = {}
            for line in lines:
                parts = str(line).split()
                counts[parts[1]] = int(parts[2])
            wantc = {s: sum(1 for v in want.values() if v == s) for s in STATUS_ORDER}
            if counts != wantc:
                return "summary %s, expected %s" % (counts, wantc)
        return ""
    finally:
        pr.w.uninstall()


def q5b(ea: bool, eb: bool, ec: bool, ja: int, jb: int, jc: int) -> str:
    """
    post: _ == ""
    """
    return q.run(_q5b, (ea, eb, ec, ja, jb, jc))


# ---------------------------------------------------------------- Q5c previews are pure and agree with the run
QUERY_CMDS = ("squeue", "sacct", "qstat", "bjobs", "sinfo")


def _q5c(ea, eb, ec, ja, jb, hs, ma, mb, mc):
    sh = q.SHARD
    symt = sh.get("symtimes", False)
    if not symt and (ma != 0 or mb != 0 or mc != 0):
        return q.SKIP
    if symt and not (ma >= 0 and mb >= 0 and mc >= 0 and ma <= 100 and mb <= 100 and mc <= 100):
        return q.SKIP
    be, shape = sh["be"], sh["shape"]
    states = STATES6
    if not (q.in_range(ja, 6) and q.in_range(jb, 6) and q.in_range(hs, 3)):
        return q.SKIP
    hashing = sh.get("hashing", False)
    if not hashing and hs != 0:
        return q.SKIP
    if "ja" in sh and ja != sh["ja"]:
        return q.SKIP
    ea, eb, ec = (True if ea else False), (True if eb else False), (True if ec else False)
    ja, jb, hs = q.pick(list(range(6)), ja), q.pick(list(range(6)), jb), q.pick([0, 1, 2], hs)
    if be == "sge" and (states[ja] in ("done", "failed", "cancelled") or states[jb] in ("failed", "cancelled")) and False:
        return q.SKIP
    pr = _setup(shape, be, ea, eb, ec, ja, jb, states, hashing=hashing, hash_sit=hs, mtimes=[ma, mb, mc] if symt else None)
    try:
        w = pr.w
        abstract = {"A": states[ja], "B": states[jb]}
        chg = None
        if hashing:
            chg = {nm: True for nm in pr.names}
            if hs >= 1:
                chg["A"] = False
        bstate, stale = _oracle(pr, be, abstract, chg)
        cone, st, pre, sub = P.plan(pr.n, pr.deps, stale, bstate, P.endpoints(pr.n, pr.deps))
        sel = tuple(sh.get("sel", ()))
        want_sub = sorted(pr.names[i] for i in sub)
        before = w.view()
        tracked_before = pr.read_json(w.tracked_path())
        hashes_before = pr.read_json(w.hashes_path())
        table = w.status_table()
        shown = sorted(nm for nm, s in table.items() if s in ("shouldrun", "failed", "cancelled"))
        full = {pr.names[i]: st[i].lower() for i in cone}
        if table != full:
            return "status shows %s, expected %s (job states %s, files %s)" % (table, full, abstract, (ea, eb, ec))
        if sel:
            # a target/pattern selection: status shows the restriction of the one table to the named targets; the previews and the run act on the selection's cone
            req = pr.requested(sel)
            named = w.status_table(targets=sel)
            if named != {pr.names[i]: full[pr.names[i]] for i in req}:
                return "status %s shows %s, the full table is %s" % (sel, named, full)
            cone_s = P.closure(pr.deps, req)
            shown = sorted(nm for nm in shown if pr.idx(nm) in cone_s)
            want_sub = sorted(nm for nm in want_sub if pr.idx(nm) in cone_s)
        w.clear_records()
        w.run(sel, dry_run=True)
        would = sorted(w.would_submit())
        if would != shown:
            return "status lists %s as to-be-run%s, dry-run would submit %s" % (shown, (" within the cone of %s" % (sel,)) if sel else "", would)
        # purity of the two previews
        mut = w.sim.mutating_log() if w.sim else [r for r in w.pool.requests if r.get("__kind__") in ("enqueue_task", "cancel_task")]
        if mut:
            return "a preview talked to the scheduler: %s" % (mut[:2],)
        after = w.view()
        state_files = (w.tracked_path(), w.hashes_path())
        for path in set(before) | set(after):
            if path in state_files:
                continue
            if before.get(path) != after.get(path):
                return "a preview changed %s: %r -> %r" % (path, before.get(path), after.get(path))
        if pr.read_json(w.tracked_path()) != tracked_before:
            return "a preview changed the recorded job ids: %s -> %s" % (tracked_before, pr.read_json(w.tracked_path()))
        if pr.read_json(w.hashes_path()) != hashes_before:
            return "a preview changed the recorded spec hashes: %s -> %s" % (hashes_before, pr.read_json(w.hashes_path()))
        # the real run submits exactly those
        n0 = len(abst.jobs_by_cmd(w))
        w.run(sel)
        submitted = sorted(j["name"] for j in abst.jobs_by_cmd(w)[n0:])
        if submitted != would or submitted != want_sub:
            return "dry-run would submit %s, run submitted %s, expected %s" % (would, submitted, want_sub)
        return ""
    finally:
        pr.w.uninstall()


def q5c(ea: bool, eb: bool, ec: bool, ja: int, jb: int, hs: int, ma: int, mb: int, mc: int) -> str:
    """
    post: _ == ""
    """
    return q.run(_q5c, (ea, eb, ec, ja, jb, hs, ma, mb, mc))


def _fshards(combos, **kw):
    return [dict({"shape": "chain3", "s": s, "p": p, "e": e, "f": f}, **kw) for s, p, e, f in combos]


QUERIES = [
    {"name": "Q5b", "fn": q5b,
     "shards": {"quick": _fshards([(0, 0, False, "default"), (1, 0, False, "default"), (2, 1, False, "default"), (3, 2, True, "default"), (0, 0, True, "summary"), (1, 2, False, "summary"), (2, 0, False, "summary"), (3, 1, True, "summary")]),
                "thorough": _fshards([(s, p, e, f) for s in range(4) for p in range(3) for e in (False, True) for f in ("default", "summary")], six=True)},
     "timeout": {"quick": 900, "thorough": 2400},
     "bound": "chain of 3 targets; existence of each output and the earlier job state of A and B (4 values quick / 6 thorough) symbolic, and - in the --endpoints shards - of the endpoint C (none / failed / cancelled); filter combination per shard: -s subsets %s x patterns %s x --endpoints x format {default, summary}: 8 combinations (quick), all 48 (thorough)" % (SSETS, PATS)},
    {"name": "Q5c", "fn": q5c,
     "shards": {"quick": [dict(d, ja=k) for d in ({"be": "slurm", "shape": "chain3"}, {"be": "local", "shape": "fork3"}) for k in range(6)] + [{"be": "slurm", "shape": "chain3", "hashing": True, "ja": k} for k in (0, 4)] + [{"be": "slurm", "shape": "chain3", "ja": 0, "symtimes": True}]
                         + [{"be": "slurm", "shape": "chain3", "ja": 0, "sel": ["Zzz*"]}, {"be": "slurm", "shape": "chain3", "ja": 4, "sel": ["B"]}, {"be": "slurm", "shape": "fork3", "ja": 3, "sel": ["B"]}, {"be": "slurm", "shape": "chain3", "ja": 0, "sel": ["A", "C*"]}, {"be": "slurm", "shape": "fork3", "ja": 0, "sel": ["B", "[C]"]}],
                "thorough": [{"be": "slurm", "shape": sp, "ja": k, "sel": sl} for sp in ("chain3", "fork3") for k in range(6) for sl in (["Zzz*"], ["B"], ["A", "C"], ["A", "C*"])] + [{"be": b, "shape": s, "hashing": h, "ja": k} for b in ("slurm", "sge", "lsf", "local") for s in ("chain3", "fork3") for h in (False, True) for k in range(6)]
                            + [{"be": "slurm", "shape": "chain3", "ja": k, "symtimes": True} for k in (0, 3, 4)]},
     "timeout": {"quick": 1500, "thorough": 3000},
     "bound": "3 targets (chain, fork); existence of each output, earlier job of A and B in one of 6 abstract states, spec hashing off / on with 3 record situations; a stale log of a removed target present; "
              "sequence status -> run --dry-run -> (purity) -> run, in extra shards with a target selection (a name, two names, a name together with a pattern, a pattern matching nothing) given to all three; backends slurm + local (quick), all four (thorough); one shard (quick) / three (thorough) with symbolic modification times (ints in 0..100) of the three outputs on Slurm"},
]
