"""C16  touch makes the selected cone look completed without changing file contents."""
import fnmatch
import json

from vf import q
from vf.oracles import plan as P
from vf.world.cmds import ROOT
from vf.world.proj import Project

META = {
    "solver_reasoned": 'modification time of every file, start of the command, clock increments before successive touches: symbolic ints (ties allowed).',
    "real": ["gwf.plugins.touch.touch (body)", "gwf.plugins.touch.touch_workflow", "gwf.core.FileSpecHashes.update/close", "gwf.filtering.filter_names", "gwf.core.Graph.from_targets/endpoints",
             "gwf.plugins.status.status (body) + gwf.scheduling.get_status_map/should_run for the follow-up status"],
    "stubs": ["VFS: pathlib.Path.touch/os.utime set the modification time to the VFS clock; the clock advances by a symbolic non-negative amount before every touch (ties allowed)",
              "scheduler simulator with no jobs (backend knows nothing)", "workflow loading (vf/world/cmds.py)"],
    "assumptions": ["no file is dated after the start of the command (the statement's exception for future-dated sources)", "the backend holds no live, failed or cancelled job (statement)"],
    "outside": ["more than 4 targets", "selections outside the pattern catalogue"],
}

PATS = {"tri-rev": [(), ("M", "R"), ("T", "R")], "chain2+sink": [(), ("N",), ("B",)], "chain3": [(), ("B",), ("A",), ("C", "A")], "fork3": [(), ("B",), ("C",)], "join3": [(), ("A",), ("C",)], "diamond4": [(), ("B",), ("D",)], "two-ends": [(), ("E",), ("B",)]}


def _q16(e0, e1, e2, e3, m0, m1, m2, m3, ms, now0, inc0, inc1, pi, hashing, hrec):
    sh = q.SHARD
    shape = sh["shape"]
    pats_all = PATS[shape]
    if not q.in_range(pi, len(pats_all)):
        return q.SKIP
    if "pi" in sh and pi != sh["pi"]:
        return q.SKIP
    if not (inc0 >= 0 and inc1 >= 0 and now0 >= 0 and ms >= 0 and ms <= now0):
        return q.SKIP
    ex = [e0, e1, e2, e3]
    mt = [m0, m1, m2, m3]
    for i in range(4):
        if not (mt[i] >= 0 and mt[i] <= now0):
            return q.SKIP
    hashing = True if hashing else False
    if not q.in_range(hrec, 3) or (not hashing and hrec != 0):
        return q.SKIP
    pats = q.pick(pats_all, pi)
    with q.notrace():
        pr = Project(shape, "slurm", hashing=hashing, reuse_targets=True)
    w = pr.w
    for s in pr.sources:
        w.file(s, ms, "source " + s)
    if pr.n > 4:
        return q.SKIP
    k = 0
    for i in range(pr.n):
        for o in pr.outputs[i]:
            if ex[i]:
                w.file(o, mt[i], "content of " + o)
    w.file("unrelated.txt", 1, "unrelated")
    if sh.get("cwd"):
        # gwf is invoked from a sub-directory of the project (workflow.py is found by walking up)
        w.vfs.cwd = ROOT + "/" + sh["cwd"]
        w.vfs.dirs.add(w.vfs.cwd)
    link_dest = None
    if sh.get("lnk"):
        # the first target's output is a symbolic link into a store elsewhere (dangling if that output "does not exist")
        o0 = pr.outputs[0][0]
        link_dest = "/vfs/store/" + o0
        w.vfs.dirs.add("/vfs/store")
        f = w.vfs.files.pop(ROOT + "/" + o0, None)
        if f is not None:
            w.vfs.files[link_dest] = f
        w.vfs.links[ROOT + "/" + o0] = link_dest
        w.vfs.link_mtime[ROOT + "/" + o0] = 1
    if hashing and hrec:
        rec = {"Gone": "1" * 40}
        if hrec == 2:
            rec[pr.names[0]] = "0" * 40        # outdated record
        pr.write_hashes(rec)
    incs = [inc0, inc1]
    count = [0]

    def tsrc(clock):
        c = clock + incs[count[0] % 2]
        count[0] += 1
        return c
    w.vfs.clock = now0
    w.vfs.time_source = tsrc
    w.install()
    try:
        before = w.view()
        w.touch(pats)
        w.vfs.time_source = None
        after = w.view()
        req = pr.requested(pats)
        cone = sorted(P.closure(pr.deps, req))
        cone_outs = set(ROOT + "/" + o for i in cone for o in pr.outputs[i])
        if link_dest is not None and 0 in cone:
            cone_outs.discard(ROOT + "/" + pr.outputs[0][0])     # (the link itself stays what it is ...)
            cone_outs.add(link_dest)                             # ... the declared output is the file it refers to
        hp = w.hashes_path()
        for path in set(before) | set(after):
            if path == hp:
                continue
            if path in cone_outs:
                if path not in after:
                    return "output %s of the cone is missing after touch" % path
                if path in before and after[path][1] != before[path][1]:
                    return "touch changed the content of %s" % path
                if path not in before and after[path][1] != "":
                    return "touch created %s with content %r" % (path, after[path][1])
            elif before.get(path) != after.get(path):
                return "touch %s changed %s, which is outside the cone %s" % (pats, path, [pr.names[i] for i in cone])
        if hashing:
            rec0 = json.loads(before[hp][1]) if hp in before else {}
            rec1 = json.loads(after[hp][1]) if hp in after else {}
            want = dict(rec0)
            for i in cone:
                want[pr.names[i]] = pr.current_hash(pr.names[i])
            if rec1 != want:
                return "spec-hash records after touch %s, expected %s" % (rec1, want)
        elif hp in after:
            return "spec hashing is off but a hash file was written"
        table = w.status_table()
        for i in cone:
            if pr.outputs[i] and table.get(pr.names[i]) != "completed":
                missing = [o for j in cone for o in pr.outputs[j] if ROOT + "/" + o not in after]
                return "after touch %s target %s is shown %s (cone outputs still missing: %s)" % (pats, pr.names[i], table.get(pr.names[i]), missing)
        return ""
    finally:
        w.vfs.time_source = None
        w.uninstall()


def q16(e0: bool, e1: bool, e2: bool, e3: bool, m0: int, m1: int, m2: int, m3: int, ms: int, now0: int, inc0: int, inc1: int, pi: int, hashing: bool, hrec: int) -> str:
    """
    post: _ == ""
    """
    return q.run(_q16, (e0, e1, e2, e3, m0, m1, m2, m3, ms, now0, inc0, inc1, pi, hashing, hrec))


QUERIES = [
    {"name": "Q16", "fn": q16,
     "shards": {"quick": [{"shape": "chain3", "pi": k} for k in range(4)] + [{"shape": "fork3", "pi": 0}, {"shape": "fork3", "pi": 1}, {"shape": "join3", "pi": 0}, {"shape": "chain2+sink", "pi": 0}, {"shape": "chain2+sink", "pi": 1}, {"shape": "tri-rev", "pi": 0}, {"shape": "tri-rev", "pi": 1}, {"shape": "chain3", "pi": 0, "lnk": True}, {"shape": "chain3", "pi": 1, "cwd": "analysis"}],
                "thorough": [{"shape": s, "pi": k} for s in ("chain3", "fork3", "join3", "diamond4", "two-ends", "chain2+sink", "tri-rev") for k in range(len(PATS[s]))] + [{"shape": s, "pi": 0, "lnk": True} for s in ("chain3", "fork3")] + [{"shape": "chain3", "pi": k, "cwd": "analysis"} for k in range(4)]},
     "timeout": {"quick": 1500, "thorough": 3600},
     "bound": "3 targets (chain with 4 selections, fork, join, chain ending in an output-less target, triangle with a shortcut edge whose middle target sorts before the root, chain whose first output is a symbolic link into a store elsewhere (dangling if absent), chain touched from a sub-directory of the project; thorough adds diamond and two endpoints); existence and modification time (symbolic int <= start of the command) of every output and source, "
              "clock increments before successive touches symbolic >= 0 (two alternating values), spec hashing off / on with 3 record situations"},
]
