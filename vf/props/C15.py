"""C15  clean deletes only unprotected declared outputs of the selected targets."""
import fnmatch
import json

import click

from vf import q
from vf.oracles import plan as P
from vf.world.cmds import ROOT
from vf.world.proj import Project, SHAPES

META = {
    "solver_reasoned": 'symbolic booleans (existence, flags, prompt answer, symlink) and selectors.',
    "real": ["gwf.plugins.clean.clean (body)", "gwf.plugins.clean._delete_file", "gwf.core.Target.protected/flattened_outputs", "gwf.filtering.NameFilter/EndpointFilter/filter_generic",
             "gwf.core.FileSpecHashes.invalidate/close", "gwf.core.Graph.from_targets/endpoints"],
    "stubs": ["VFS (with one output optionally being a symbolic link to an unrelated file)", "click.confirm scripted", "workflow loading (vf/world/cmds.py)"],
    "assumptions": ["one gwf process at a time"],
    "outside": ["more than 3 targets", "protect sets and patterns outside the catalogues"],
}

PATS = [(), ("A",), ("B", "C"), ("*",), ("X*",), ("[AB]",)]
PROTECT = [("none", []), ("same spelling", ["b"]), ("other spelling", ["./b"]), ("absolute", [ROOT + "/b"]), ("a non-output", ["src"]), ("dir/.. spelling", ["x/../b"])]


def _q15(ea, eb, ec, all_, force, pi, answer, pr_i, lnk, hashing):
    sh = q.SHARD
    if not (q.in_range(pi, len(PATS)) and q.in_range(pr_i, len(PROTECT))):
        return q.SKIP
    if "pi" in sh and pi != sh["pi"]:
        return q.SKIP
    if "pr" in sh and pr_i != sh["pr"]:
        return q.SKIP
    ea, eb, ec, all_, force, answer, lnk, hashing = [True if x else False for x in (ea, eb, ec, all_, force, answer, lnk, hashing)]
    pats = q.pick(PATS, pi)
    plabel, prot = q.pick(PROTECT, pr_i)
    if lnk and (not ea or sh["shape"] == "dir-output"):
        return q.SKIP
    if sh["shape"] == "dir-output" and ea:
        return q.SKIP        # the directory output exists iff something is inside it
    with q.notrace():
        pr = Project(sh["shape"], "slurm", hashing=hashing)
        pr.targets["B"].protect = set(prot)
        pr.add_sources(5)
        w = pr.w
        if sh["shape"] == "dir-output":
            w.vfs.dirs.add(ROOT + "/work")
            w.file("work/notes.md", 1, "unrelated file inside the output directory")
            for rel, e in (("work/b", eb), ("work/c", ec)):
                if e:
                    w.file(rel, 6, "output " + rel)
        else:
            for rel, e in (("a", ea), ("b", eb), ("c", ec)):
                if e:
                    w.file(rel, 6, "" if (rel == "b" and sh.get("empty_b")) else "output " + rel)   # b may be a zero-length marker file
            if sh["shape"] == "chain3x" and eb:
                w.file("b.idx", 6, "second output of B; its name starts with the name of the first")
        if lnk:
            # output a is a symbolic link to an unrelated file
            del w.vfs.files[ROOT + "/a"]
            w.vfs.add("/vfs/cache/real_a", 2, "unrelated file in a cache")
            w.vfs.links[ROOT + "/a"] = "/vfs/cache/real_a"
        if sh.get("cwd"):
            # gwf is invoked from a sub-directory of the project (it finds workflow.py by walking up); files with the outputs' relative names live there too
            w.vfs.cwd = ROOT + "/" + sh["cwd"]
            w.vfs.dirs.add(w.vfs.cwd)
            for rel in ("a", "b", "c"):
                w.file(sh["cwd"] + "/" + rel, 2, "a file of the sub-directory, not an output")
        w.file("notes.txt", 1, "unrelated")
        w.file(".gwf/logs/A.stdout", 1, "log")
        w.file("b.bak", 1, "looks like an output")
        if hashing:
            pr.write_hashes({nm: pr.current_hash(nm) for nm in pr.names})
        w.confirm_answer = answer
        w.install()
    try:
        before = w.view()
        aborted = False
        try:
            w.clean(pats, all_, force)
        except click.Abort:
            aborted = True
        after = w.view()
        prompted = (not pats) and (not force)
        if aborted != (prompted and not answer):
            return "aborted=%s, prompt shown=%s answer=%s" % (aborted, prompted, answer)
        if prompted != (len(w.confirms) > 0):
            return "confirmation asked=%s, expected %s" % (len(w.confirms) > 0, prompted)
        if aborted:
            if after != before:
                return "the prompt was declined but the project changed: %s" % sorted(k for k in set(before) | set(after) if before.get(k) != after.get(k))
            return ""
        sel = [i for i in range(pr.n) if (not pats) or any(fnmatch.fnmatchcase(pr.names[i], p) for p in pats)]
        if not all_:
            ends = P.endpoints(pr.n, pr.deps)
            sel = [i for i in sel if i not in ends]
        removed_want = set()
        for i in sel:
            for o in pr.outputs[i]:
                path = ROOT + "/" + o
                protected = (pr.names[i] == "B" and o == "b" and plabel in ("same spelling", "other spelling", "absolute", "dir/.. spelling"))
                if path in before and not protected:
                    removed_want.add(path)     # (an output that is a directory is not a file of the snapshot: it stays)
        expected = dict(before)
        for p in removed_want:
            del expected[p]
        hp = w.hashes_path()
        if hashing:
            rec = json.loads(before[hp][1])
            for i in sel:
                rec.pop(pr.names[i], None)
            got_rec = json.loads(after[hp][1]) if hp in after else None
            if got_rec != rec:
                return "spec-hash records after clean %s, expected %s (selected %s)" % (got_rec, rec, [pr.names[i] for i in sel])
        expected.pop(hp, None)
        got = dict(after)
        got.pop(hp, None)
        if got != expected:
            gone = sorted(k for k in before if k not in after)
            kept = sorted(k for k in removed_want if k in after)
            other = sorted(k for k in after if k != hp and (k not in before or before[k] != after[k]))
            return "clean %s all=%s protect(B)=%s: removed %s; should have removed %s; not removed %s; otherwise changed %s" % (pats, all_, plabel, gone, sorted(removed_want), kept, other)
        return ""
    finally:
        w.uninstall()


def q15(ea: bool, eb: bool, ec: bool, all_: bool, force: bool, pi: int, answer: bool, pr_i: int, lnk: bool, hashing: bool) -> str:
    """
    post: _ == ""
    """
    return q.run(_q15, (ea, eb, ec, all_, force, pi, answer, pr_i, lnk, hashing))


QUERIES = [
    {"name": "Q15", "fn": q15,
     "shards": {"quick": [{"shape": "chain3", "pi": k, "pr": r} for k in range(len(PATS)) for r in (0, 1, 2, 4)] + [{"shape": "fork3", "pi": 0, "pr": r} for r in (0, 2)] + [{"shape": "dir-output", "pi": p_, "pr": 0} for p_ in (0, 1, 3)] + [{"shape": "chain3", "pi": p_, "pr": r, "empty_b": True} for p_, r in ((0, 0), (2, 0), (3, 1))]
                         + [{"shape": "chain3", "pi": p_, "pr": r, "cwd": "analysis"} for p_, r in ((0, 0), (3, 2))]
                         + [{"shape": "chain3x", "pi": p_, "pr": r} for p_, r in ((0, 1), (3, 2))],
                "thorough": [{"shape": s, "pi": k, "pr": r} for s in ("chain3", "fork3", "two-ends", "dir-output") for k in range(len(PATS)) for r in range(len(PROTECT))]
                             + [{"shape": "chain3", "pi": k, "pr": r, "cwd": "analysis"} for k in range(len(PATS)) for r in (0, 2, 3)]
                             + [{"shape": "chain3x", "pi": k, "pr": r} for k in range(len(PATS)) for r in (0, 1, 2, 3)]},
     "timeout": {"quick": 1500, "thorough": 3000},
     "bound": "3 targets (chain: a file that is output of one target and input of the next; fork; a target whose declared output is a directory that holds other targets' outputs and a stray file); in some shards the middle output is a zero-length file, in some the middle target has a second output whose name extends the protected one's, in some gwf is invoked from a sub-directory holding files with the outputs' relative names; existence of every output, --all, --force, prompt answer, spec hashing on/off, output a optionally a symlink to an unrelated file (symbolic bools); "
              "pattern sets %s (one per shard); protect set of B from %s" % (PATS, [p[0] for p in PROTECT])},
]
