"""C19  Workflow definition: paths and names mean the same wherever gwf is run."""
import os
import pathlib
import re
import types

from vf import q
from vf.smt import kernels
from vf.world import vfs
from vf.world.cmds import World

from gwf import AnonymousTarget, Workflow
from gwf import cli as cli_mod
from gwf import utils as utils_mod
from gwf.backends import slurm as slurm_mod
from gwf.core import Target
from gwf.exceptions import GWFError, WorkflowError

META = {
    "solver_reasoned": 'E2: unbounded strings in the regex theory; Q19p: one symbolic character (code point); nesting depth and map item count (symbolic ints).',
    "real": ["gwf.utils.is_valid_name", "gwf.core.Target.__init__ (validators)", "gwf.core._check_path/_has_nonprintable_char/_flatten/_norm_path", "gwf.workflow.Workflow.target/"
             "target_from_template/map/_add_target", "gwf.utils.find_workflow", "gwf.cli.main (body)", "gwf.backends.slurm.SlurmOps.compile_script (cd target)"],
    "stubs": ["os.getcwd (selector over invoking directories)", "VFS for workflow-file lookup and the project state directory", "cli.configure_logging recorded, click.confirm scripted",
              "E2 kernel: the name regular expression is translated from the AST into the regex theory of z3/cvc5 (unbounded strings)"],
    "assumptions": ["paths are normalised lexically (no symlinks)", "the Workflow's own working_dir is absolute (gwf computes it with realpath of the workflow file)"],
    "outside": ["click's argument parsing and entry-point discovery", "path strings longer than 3 symbolic characters", "more than 4 map items"],
}

SPEC_NAME = re.compile(r"[A-Za-z_][A-Za-z0-9._]*")


# ---------------------------------------------------------------- E2 name language (unbounded) + replay
def name_replay(name):
    got = utils_mod.is_valid_name(name)
    want = SPEC_NAME.fullmatch(name) is not None
    if got != want:
        return "is_valid_name(%r) = %s, identifier-like = %s" % (name, got, want)
    try:
        Target(name=name, inputs=[], outputs=[], options={}, working_dir="/w")
        accepted = True
    except GWFError:
        accepted = False
    if accepted != want:
        return "Target(name=%r) accepted=%s, identifier-like = %s" % (name, accepted, want)
    return ""


NAMES = ["a", "A1", "_x", "a.b", "a-b", "1a", "", "a b", "a\n", "\na", "é", "a.", ".a", "a/b", "a\x00", "a\r", "Z9._", "a\n\n", "a "]


NAME_MODES = ["Target()", "Workflow.target", "target_from_template", "map with a naming function", "map with a string prefix"]


def name_via(mode, name):
    """Is `name` accepted as a target name when the target is created this way?"""
    wf = Workflow(working_dir="/w")
    tmpl = AnonymousTarget(inputs=[], outputs=[], options={}, group="g", spec="x")
    try:
        if mode == 0:
            Target(name=name, inputs=[], outputs=[], options={}, working_dir="/w")
        elif mode == 1:
            wf.target(name, inputs=[], outputs=[])
        elif mode == 2:
            wf.target_from_template(name, tmpl)
        elif mode == 3:
            wf.map(lambda x: tmpl, ["i"], name=lambda idx, t: name)
        else:
            wf.map(lambda x: tmpl, ["i"], name=name)          # generated name: <name>_0
        return True
    except GWFError:
        return False


def _q19n(k, mode):
    if not (q.in_range(k, len(NAMES)) and q.in_range(mode, len(NAME_MODES))):
        return q.SKIP
    name = q.pick(NAMES, k)
    mode = q.pick([0, 1, 2, 3, 4], mode)
    msg = name_replay(name)
    if msg:
        return msg
    effective = name + "_0" if mode == 4 else name
    want = SPEC_NAME.fullmatch(effective) is not None
    got = name_via(mode, name)
    if got != want:
        return "%s with name %r: accepted=%s, identifier-like=%s" % (NAME_MODES[mode], effective, got, want)
    return ""


def q19n(k: int, mode: int) -> str:
    """
    post: _ == ""
    """
    return q.run(_q19n, (k, mode))


# ---------------------------------------------------------------- path validators (symbolic str)
def _is_cc(ch):
    o = ord(ch)
    return o <= 31 or (127 <= o and o <= 159)


def _q19p(s, role):
    if len(s) > q.SHARD["maxlen"] or not q.in_range(role, 3):
        return q.SKIP
    want_ok = len(s) > 0
    for ch in s:
        if ord(ch) > q.SHARD["maxord"]:
            return q.SKIP
        if _is_cc(ch):
            want_ok = False
    try:
        if role == 0:
            Target(name="T", inputs=[s], outputs=[], options={}, working_dir="/w")
        elif role == 1:
            Target(name="T", inputs=[], outputs={"o": s}, options={}, working_dir="/w")
        else:
            Target(name="T", inputs=[], outputs=[], options={}, working_dir=s)
        ok = True
    except GWFError:
        ok = False
    if ok != want_ok:
        return "path accepted=%s, expected %s" % (ok, want_ok)
    return ""


def q19p(s: str, role: int) -> str:
    """
    post: _ == ""
    """
    return q.run(_q19p, (s, role))


class _PL:
    def __init__(self, p):
        self.p = p

    def __fspath__(self):
        return self.p


KINDS = [("str", "x/y", True, "/w/x/y"), ("pathlib", pathlib.PurePosixPath("x/y"), True, "/w/x/y"), ("PathLike", _PL("x/y"), True, "/w/x/y"),
         ("absolute pathlib", pathlib.PurePosixPath("/abs/z"), True, "/abs/z"), ("empty str", "", False, None), ("PathLike of empty", _PL(""), False, None),
         ("PathLike with newline", _PL("a\nb"), False, None), ("int", 5, False, None), ("None", None, False, None), ("bytes", b"x", False, None),
         ("str with tab", "a\tb", False, None), ("str with DEL", "a\x7fb", False, None), ("unicode", "dé/中", True, "/w/dé/中"), ("blank", " ", True, "/w/ ")]


def _q19k(k, role):
    if not (q.in_range(k, len(KINDS)) and q.in_range(role, 2)):
        return q.SKIP
    label, value, want_ok, want_path = q.pick(KINDS, k)
    try:
        t = Target(name="T", inputs=[value] if role == 0 else [], outputs=[[value]] if role == 1 else [], options={}, working_dir="/w")
        ok = True
    except Exception:
        ok = False
    if ok != want_ok:
        return "%s as %s: accepted=%s, expected %s" % (label, "input" if role == 0 else "output", ok, want_ok)
    if ok:
        got = t.flattened_inputs() if role == 0 else t.flattened_outputs()
        if got != [want_path]:
            return "%s flattens to %r, expected %r" % (label, got, [want_path])
    return ""


def q19k(k: int, role: int) -> str:
    """
    post: _ == ""
    """
    return q.run(_q19k, (k, role))


# ---------------------------------------------------------------- cwd independence of every creation mode
WD = "/vfs/proj"
CWDS = ["/vfs/proj", "/vfs/proj/sub/deep", "/elsewhere", "/"]
TEMPLATE_WD = [("default", "OMIT", WD), ("dot", ".", WD), ("relative", "res", WD + "/res"), ("absolute", "/abs/t", "/abs/t"), ("dotdot", "../up", "/vfs/up"), ("none", None, WD), ("empty", "", WD)]
MODES = ["target", "template", "map-auto", "map-str", "map-func"]


def _tmpl(path, twd):
    kw = {} if twd == "OMIT" else {"working_dir": twd}
    return AnonymousTarget(inputs=[path], outputs={"o": path + ".out"}, options={}, group="g", spec="cat", protect=[path + ".out"], **kw)


def _q19c(cwd_a, cwd_b, mode, tw):
    if not (q.in_range(cwd_a, len(CWDS)) and q.in_range(cwd_b, len(CWDS)) and q.in_range(mode, len(MODES)) and q.in_range(tw, len(TEMPLATE_WD))):
        return q.SKIP
    if cwd_a >= cwd_b:
        return q.SKIP
    m = q.pick(MODES, mode)
    label, twd, exp_wd = q.pick(TEMPLATE_WD, tw)
    if m == "target" and tw != 0:
        return q.SKIP
    real_getcwd = os.getcwd
    seen = []
    try:
        for c in (cwd_a, cwd_b):
            cur = q.pick(CWDS, c)
            os.getcwd = lambda cur=cur: cur
            wf = Workflow(working_dir=WD)
            if m == "target":
                ts = [wf.target("T", inputs=["in.txt"], outputs={"o": "in.txt.out"}, protect=["in.txt.out"])]
                exp = WD
            elif m == "template":
                ts = [wf.target_from_template("T", _tmpl("in.txt", twd))]
                exp = exp_wd
            else:
                def make(path):
                    return _tmpl(path, twd)
                name = None if m == "map-auto" else ("nm" if m == "map-str" else (lambda idx, t: "f%d" % idx))
                ts = list(wf.map(make, ["in.txt"], name=name))
                exp = exp_wd
            t = ts[0]
            t.options = {"cores": 1}
            script = slurm_mod.SlurmOps("/vfs/proj", "full", True, target_defaults={}).compile_script(t)
            cd = [ln for ln in script.split("\n") if ln.startswith("cd ")]
            view = (t.flattened_inputs(), t.flattened_outputs(), sorted(t.protected()), cd)
            want = ([exp + "/in.txt"], [exp + "/in.txt.out"], [exp + "/in.txt.out"])
            norm = tuple([os.path.normpath(p) for p in part] for part in view[:3])
            if norm != tuple([os.path.normpath(p) for p in part] for part in want):
                return "mode %s, template working_dir %s, invoked from %s: paths %r, expected below %s" % (m, label, cur, view[:3], exp)
            if len(cd) != 1 or os.path.normpath(os.path.join(cur, cd[0][3:].strip("'"))) != os.path.normpath(exp):
                return "mode %s, template working_dir %s, invoked from %s: script does %r, expected directory %s" % (m, label, cur, cd, exp)
            seen.append(norm)
        if seen[0] != seen[1]:
            return "paths depend on the invoking directory: %r vs %r" % (seen[0], seen[1])
        return ""
    finally:
        os.getcwd = real_getcwd


def q19c(cwd_a: int, cwd_b: int, mode: int, tw: int) -> str:
    """
    post: _ == ""
    """
    return q.run(_q19c, (cwd_a, cwd_b, mode, tw))


# ---------------------------------------------------------------- Q19w a workflow file on disk: Workflow() without working_dir means the file's directory
WF_FILES = ["workflow.py", "gwf_pipeline.py", "gwfx.py", "pipeline_gwf.py", "my.flow.py", "Workflow.py"]
WF_SOURCE = "from gwf import Workflow, AnonymousTarget\ngwf = Workflow()\ngwf.target('T', inputs=['data/in.txt'], outputs=['out.txt']) << 'x'\n" \
            "gwf.target_from_template('U', AnonymousTarget(inputs=['out.txt'], outputs=['u.txt'], options={}, spec='y'))\n"


def _q19w(fi, ci):
    """A real workflow file (temporary directory on the real file system, removed afterwards) is loaded with the real
    gwf.utils.load_workflow while the process is in the project directory, a nested sub-directory or an unrelated
    directory: the workflow's working directory and every relative path mean the file's directory."""
    if not (q.in_range(fi, len(WF_FILES)) and q.in_range(ci, 3)):
        return q.SKIP
    fname, where = q.pick(WF_FILES, fi), q.pick([0, 1, 2], ci)
    with q.notrace():
        import shutil
        import tempfile
        from gwf.utils import load_workflow
        base = os.path.realpath(tempfile.mkdtemp(prefix="vf-c19-"))
        old = os.getcwd()
        try:
            proj = os.path.join(base, "proj")
            os.makedirs(os.path.join(proj, "data", "deep"))
            os.makedirs(os.path.join(base, "elsewhere"))
            with open(os.path.join(proj, fname), "w") as f:
                f.write(WF_SOURCE)
            os.chdir([proj, os.path.join(proj, "data", "deep"), os.path.join(base, "elsewhere")][where])
            wf = load_workflow(pathlib.Path(os.path.join(proj, fname)), "gwf")
            got_wd = os.path.realpath(wf.working_dir)
            t, u = wf.targets["T"], wf.targets["U"]
            paths = (t.flattened_inputs(), t.flattened_outputs(), u.flattened_inputs(), u.flattened_outputs())
            want = ([proj + "/data/in.txt"], [proj + "/out.txt"], [proj + "/out.txt"], [proj + "/u.txt"])
        finally:
            os.chdir(old)
            shutil.rmtree(base, ignore_errors=True)
        place = ["the project directory", "a nested sub-directory", "an unrelated directory"][where]
        if got_wd != proj:
            return "workflow file %s loaded from %s: working directory %r, the file lives in %r" % (fname, place, got_wd.replace(base, "<tmp>"), "<tmp>/proj")
        if tuple([os.path.realpath(x) for x in part] for part in paths) != want:
            return "workflow file %s loaded from %s: paths %r" % (fname, place, [[x.replace(base, "<tmp>") for x in part] for part in paths])
    return ""


def q19w(fi: int, ci: int) -> str:
    """
    post: _ == ""
    """
    return q.run(_q19w, (fi, ci))


# ---------------------------------------------------------------- find_workflow + cli.main: same project from every start directory
def _q19f(depth, use_f, unrelated, linked):
    """Project at /vfs/proj with workflow.py; gwf invoked from /vfs/proj/<d1>/.../<d_depth> (depth
    symbolic 0..3) or, with -f <absolute path>, from an unrelated directory."""
    if not q.in_range(depth, 4):
        return q.SKIP
    if unrelated and not use_f:
        return q.SKIP
    w = vfs.VFS()
    if linked:
        # the project's workflow.py is a symbolic link to a workflow shared by several projects: the project is where the link is
        w.add("/vfs/shared/flows/workflow.py", 1, "# workflow")
        w.links["/vfs/proj/workflow.py"] = "/vfs/shared/flows/workflow.py"
        w.dirs.add("/vfs/proj")
    else:
        w.add("/vfs/proj/workflow.py", 1, "# workflow")
    start = "/vfs/proj"
    for i in range(depth):
        start = start + "/d%d" % i
    w.dirs.add(start)
    if unrelated:
        start = "/vfs/other/place"
        w.dirs.add(start)
    vfs.install(w)
    real = (os.getcwd, cli_mod.configure_logging, cli_mod.guess_backend)
    old_pwd = os.environ.get("PWD")
    try:
        # (the environment may carry a stale PWD - a process started with cwd=... by a driver, cron, make -C: only the real cwd counts)
        w.add("/vfs/stale/workflow.py", 1, "# another project")
        os.environ["PWD"] = "/vfs/stale"
        os.getcwd = lambda: start
        cli_mod.configure_logging = lambda level_name, handler=None: None
        cli_mod.guess_backend = lambda: (0, "local")
        ctx = types.SimpleNamespace(obj=None)
        fn = cli_mod.main.callback
        fn = getattr(fn, "__wrapped__", fn)
        file_arg = "/vfs/proj/workflow.py:gwf" if use_f else "workflow.py:gwf"
        fn(ctx, file_arg, None, None, None)
        c = ctx.obj
        if os.path.normpath(str(c.working_dir)) != "/vfs/proj":
            return "invoked from %s: project directory %r, expected /vfs/proj" % (start, c.working_dir)
        if os.path.normpath(str(c.workflow_file)) != "/vfs/proj/workflow.py" or c.workflow_obj != "gwf":
            return "invoked from %s: workflow file %r" % (start, c.workflow_file)
        if os.path.normpath(c.logs_dir) != "/vfs/proj/.gwf/logs" or "/vfs/proj/.gwf/logs" not in w.dirs:
            return "invoked from %s: state directory %r (created dirs %s)" % (start, c.config_dir, sorted(w.dirs))
        if os.path.normpath(str(c.config.path)) != "/vfs/proj/.gwfconf.json":
            return "config file at %r" % (c.config.path,)
        extra = [d for d in w.dirs if d.endswith(".gwf") and d != "/vfs/proj/.gwf"] + [f for f in w.files if f.endswith(".gwfconf.json") and f != "/vfs/proj/.gwfconf.json"]
        if extra:
            return "a second state directory was created: %s" % extra
        return ""
    finally:
        os.getcwd, cli_mod.configure_logging, cli_mod.guess_backend = real
        if old_pwd is None:
            os.environ.pop("PWD", None)
        else:
            os.environ["PWD"] = old_pwd
        vfs.uninstall()


def q19f(depth: int, use_f: bool, unrelated: bool, linked: bool) -> str:
    """
    post: _ == ""
    """
    return q.run(_q19f, (depth, use_f, unrelated, linked))


# ---------------------------------------------------------------- map: one target per item, deterministic distinct valid names
ITERS = [("list", lambda xs: list(xs)), ("tuple", lambda xs: tuple(xs)), ("generator", lambda xs: (x for x in xs)), ("iterator", lambda xs: iter(list(xs))),
         ("zip unpacked by a generator", lambda xs: (a for a, b in zip(xs, xs))), ("dict keys", lambda xs: dict.fromkeys(xs).keys())]


def _q19m(n, naming, dup):
    if not (q.in_range(n, 5) and q.in_range(naming, 4)):
        return q.SKIP
    kind_label, mk_items = ITERS[q.SHARD.get("iter", 0)]

    def make(path):
        return AnonymousTarget(inputs=[path], outputs=[path + ".o"], options={}, group="g", spec="x")
    items = ["f%d" % i for i in range(n)]
    name = q.pick([None, "nm", lambda idx, t: "it%d" % idx, lambda idx, t: "it%d" % (idx // 2)], naming)
    if naming == 3:
        # a naming function that gives two items the same name: the second definition must be rejected
        if dup:
            return q.SKIP
        wf = Workflow(working_dir=WD)
        try:
            ts = wf.map(make, items, name=name)
        except WorkflowError:
            return "" if n >= 2 else "map over %d items with distinct names was rejected" % n
        if n >= 2:
            return "map over %d items accepted the names %s (workflow has %d targets)" % (n, [t.name for t in ts], len(wf.targets))
        return ""
    runs = []
    for _ in range(2):
        wf = Workflow(working_dir=WD)
        if dup and n >= 1:
            # the first name map generates (whatever the naming scheme is: learnt from a scratch workflow) is already taken
            pre = Workflow(working_dir=WD).map(make, items, name=name)[0].name
            wf.target(pre, inputs=[], outputs=[])
            try:
                wf.map(make, items, name=name)
                return "duplicate target name %s accepted" % pre
            except WorkflowError:
                return ""
        ts = wf.map(make, mk_items(items), name=name)
        if len(ts) != n or len(wf.targets) != n:
            return "%d items (given as a %s) gave %d targets" % (n, kind_label, len(ts))
        names = [t.name for t in ts]
        for nm in names:
            if not SPEC_NAME.fullmatch(nm):
                return "generated name %r is not identifier-like" % nm
        if len(set(names)) != n:
            return "generated names collide: %s" % names
        for i, t in enumerate(ts):
            if t.flattened_inputs() != [WD + "/f%d" % i]:
                return "item %d became target with inputs %s" % (i, t.flattened_inputs())
        runs.append(names)
    if runs[0] != runs[1]:
        return "names differ between two evaluations: %s / %s" % (runs[0], runs[1])
    return ""


def q19m(n: int, naming: int, dup: bool) -> str:
    """
    post: _ == ""
    """
    return q.run(_q19m, (n, naming, dup))


QUERIES = [
    {"name": "E2name", "fn": name_replay, "smt": lambda shard: kernels.name_language(), "smt_samples": [[n] for n in NAMES], "shards": [{}], "timeout": 120,
     "bound": "unbounded: language of the regular expression read from utils.is_valid_name (with Python's semantics of the re function and of ^/$) = [A-Za-z_][A-Za-z0-9._]* ; z3 5.1, z3 4.8.12 and cvc5 must all answer unsat"},
    {"name": "Q19n", "fn": q19n, "shards": [{}], "timeout": 200, "bound": "name catalogue %r through is_valid_name and through every way of creating a target: %s" % (NAMES, NAME_MODES)},
    {"name": "Q19p", "fn": q19p, "shards": {"quick": [{"maxlen": 1, "maxord": 255}], "thorough": [{"maxlen": 2, "maxord": 34}, {"maxlen": 1, "maxord": 0x2FF}]}, "timeout": {"quick": 400, "thorough": 1500},
     "bound": "path = symbolic str of length <= 1 (quick) / <= 1 over code points <= U+02FF and <= 2 over code points <= 34 (thorough); quick: length <= 1, code points <= 255; as input, named output or working_dir: accepted iff non-empty and no control character"},
    {"name": "Q19k", "fn": q19k, "shards": [{}], "timeout": 300, "bound": "value kinds %s as input / nested output" % [k[0] for k in KINDS]},
    {"name": "Q19c", "fn": q19c, "shards": [{}], "timeout": {"quick": 900, "thorough": 1800},
     "bound": "every pair of invoking directories from %s x creation modes %s x template working_dir in %s" % (CWDS, MODES, [t[0] for t in TEMPLATE_WD])},
    {"name": "Q19w", "fn": q19w, "shards": [{}], "timeout": 300,
     "bound": "workflow file named one of %s, loaded with the real load_workflow from the project directory / a nested sub-directory / an unrelated directory (real temporary files)" % (WF_FILES,)},
    {"name": "Q19f", "fn": q19f, "shards": [{}], "timeout": 400, "bound": "invoking directory = project root or nested 1..3 levels (symbolic depth), or unrelated directory with -f <absolute path>; workflow.py a file or a symbolic link to a shared workflow elsewhere; a stale PWD in the environment"},
    {"name": "Q19m", "fn": q19m, "shards": [{"iter": k} for k in range(len(ITERS))], "timeout": 400, "bound": "0..4 map items (symbolic count) given as list / tuple / generator / iterator / zip-generator / dict keys (one per shard), 3 naming modes + a naming function that repeats a name (must be rejected), with/without a pre-existing target of the first generated name, evaluated twice"},
]
