"""C12  local worker pool (see localpool.py for the shared query body; this module keeps the clauses tagged [C12])."""
from vf import q
from vf.props import localpool as LP

TAG = "[C12]"
META = dict(LP.META_COMMON)
META["solver_reasoned"] = 'as C11.'


def _body(e0, e1, e2, e3, e4, e5, f0, f1, f2, f3, f4, f5, rc0, rc1, rc2, rc3, sf, lf):
    r = LP.pool_body((e0, e1, e2, e3, e4, e5, f0, f1, f2, f3, f4, f5, rc0, rc1, rc2, rc3, sf, lf))
    if r is None or r == "":
        return r
    if r.startswith("unexpected"):
        return r
    mine = [part for part in r.split(" | ") if part.startswith(TAG)]
    if mine:
        return " | ".join(mine)
    return ""        # clauses of another local-pool property: reported by that property's check


def pool(e0: int, e1: int, e2: int, e3: int, e4: int, e5: int, f0: bool, f1: bool, f2: bool, f3: bool, f4: bool, f5: bool,
         rc0: int, rc1: int, rc2: int, rc3: int, sf: int, lf: int) -> str:
    """
    post: _ == ""
    """
    return q.run(_body, (e0, e1, e2, e3, e4, e5, f0, f1, f2, f3, f4, f5, rc0, rc1, rc2, rc3, sf, lf))


def _sp(shards):
    out = []
    for sh in shards:
        out.extend(LP.split(sh))
    return out


def S(scen, cores, steps, **kw):
    d = {"scen": scen, "cores": cores, "steps": steps}
    d.update(kw)
    return d

QUERIES = [
    {"name": "pool", "fn": pool,
     "shards": {"quick": _sp([S("skip", 1, 3), S("indep-tl", 1, 3), S("indep-tl", 2, 3), S("fork", 1, 3), S("one-tl", 1, 4, ignore_term=True), S("fork", 1, 2, faults=True), S("indep-tl", 1, 2, faults=True), S("twins", 1, 3), S("twins", 2, 3)]),
                "thorough": _sp([S(s, c, 3) for s in ("skip", "indep-tl", "fork", "chain", "late", "twins") for c in (1, 2)] + [S("chain", 1, 4), S("fork", 2, 4)] + [S("one-tl", 1, 4, ignore_term=True), S("fork", 1, 3, faults=True), S("indep-tl", 1, 3, faults=True), S("indep-tl", 1, 3, races=True)])},
     "timeout": {"quick": 900, "thorough": 3000},
     "bound": "scenarios: failing task with a skipped dependent followed by independent tasks, the same with two tasks sharing one name, time-limited independent tasks, fork; 1 or 2 cores; event script of 3-4 events + drain; "
              "one scenario with a child that ignores SIGTERM; live children <= cores at every quiescent point, no core released that was not taken, no free core while a ready task waits, balanced at the end"},
]
