"""C08  A target's reported state is the scheduler's state of its own latest job."""
import json

from vf import q
from vf.oracles import scheduler_states as SS
from vf.world import abst, schedsim
from vf.world.cmds import ROOT, World

from gwf.backends import create_backend
from gwf.backends import slurm as slurm_mod
from gwf.backends.base import BackendStatus
from gwf.core import Target

META = {
    "solver_reasoned": 'number of tracked ids and sacct batch size (Q8d, symbolic ints); otherwise selectors over the documented state-code tables.',
    "real": ["gwf.backends.base.TrackingBackend.__init__/status/submit/close", "gwf.backends.slurm.SlurmOps.get_job_states/get_job_states_from_squeue/get_job_states_from_sacct/"
             "get_job_states_from_sacct_batched", "gwf.backends.sge.SGEOps.get_job_states", "gwf.backends.lsf.LSFOps.get_job_states", "gwf.backends.local.LocalOps.get_job_states/Client.status",
             "gwf.backends.utils.call", "gwf.backends.base.create_backend + factories"],
    "stubs": ["scheduler simulators with the documented output formats (squeue %i;%t rows, sacct parsable2 rows incl. 'CANCELLED by <uid>', qstat -f -xml, bjobs -noheader -o stat), pool model behind the socket",
              "VFS for the tracked-jobs file", "reference tables of documented state codes: vf/oracles/scheduler_states.py"],
    "assumptions": ["the reference tables are transcribed from the manuals from memory (no network); they are echoed in the evidence",
                    "bjobs answers an unknown job with empty stdout and exit 0 (as the backend expects)"],
    "outside": ["state codes that are not in the reference tables", "Slurm job arrays / steps (gwf passes --allocations)"],
}

T = {nm: Target(name=nm, inputs=[], outputs=[], options={}, working_dir=ROOT) for nm in ("A", "B", "C")}
SQ = sorted(SS.SQUEUE)
SA = sorted(SS.SACCT)
BJ = sorted(SS.BJOBS)
QS = sorted([k for k in SS.QSTAT if k is not None]) + [None]
LO = sorted([k for k in SS.LOCAL if k is not None]) + [None]
FOREIGN = [[], [("5", "R")], [("555", "F"), ("5", "PD")], [("1055", "CA")], [("0", "R")]]


def _backend(w):
    return create_backend(w.backend, working_dir=ROOT, config=w.ctx().config)


def _world(be, acct=True):
    w = World(be)
    if be == "slurm" and not acct:
        w.vfs.add(ROOT + "/.gwfconf.json", 1, json.dumps({"backend.slurm.accounting_enabled": False}))
    return w


# ---------------------------------------------------------------- Q8a state tables
def _q8a_slurm(where, code_q, code_a, acct, foreign, bfin):
    """where: 0 = row in the live queue (and, accounting on, possibly a stale accounting row),
    1 = accounting row only, 2 = no record anywhere."""
    if where != q.SHARD["where"]:
        return q.SKIP
    where = q.SHARD["where"]
    if where == 2 and (code_q != 0 or code_a != 0):
        return q.SKIP
    if where == 1 and code_q != 0:
        return q.SKIP
    if foreign not in q.SHARD["foreign"]:
        return q.SKIP
    if where == 0 and code_a not in q.SHARD["lags"]:
        return q.SKIP
    if not (q.in_range(code_q, len(SQ)) and q.in_range(code_a, len(SA) + 1) and q.in_range(foreign, len(FOREIGN))):
        return q.SKIP
    cq = q.pick(SQ, code_q)
    ca = q.pick(SA + [None], code_a)
    acct = True if acct else False
    bfin = True if bfin else False
    fo = q.pick(FOREIGN, foreign)
    if where == 2 and (code_q != 0 or code_a != 0):
        return q.SKIP
    if where == 1 and code_q != 0:
        return q.SKIP
    with q.notrace():
        w = _world("slurm", acct)
        w.vfs.add(w.tracked_path(), 1, json.dumps({"A": "55", "B": "56"}))
        if where == 0:
            w.sim.add_job("55", "A", cq, in_queue=True)
            if ca is not None:
                w.sim.acct_lag["55"] = ca
            else:
                w.sim.jobs["55"].acct = False
        elif where == 1:
            if ca is None:
                return q.SKIP
            w.sim.add_job("55", "A", "gone", in_queue=False)
            w.sim.acct_lag["55"] = ca
        if bfin:          # the other tracked job is finished: only accounting knows it
            w.sim.add_job("56", "B", "gone", in_queue=False)
            w.sim.acct_lag["56"] = "FAILED"
        else:
            w.sim.add_job("56", "B", "R", in_queue=True)
        w.sim.foreign = [(i, c) for i, c in fo]
        w.install()
    try:
        backend = _backend(w)
        got = backend.status(T["A"]).name
        used_sacct = any(e == "sacct" for e, a, i in w.sim.log)
        if used_sacct != acct:
            return "accounting_enabled=%s but sacct consulted=%s" % (acct, used_sacct)
        if where == 0:
            cls, src = SS.SQUEUE[cq], "squeue says %s" % cq
        elif where == 1 and acct:
            cls, src = SS.SACCT[ca], "sacct says %s" % ca
        else:
            cls, src = "U", "no record"
        if not SS.ok(cls, got):
            return "%s (accounting %s, stale sacct row %r): shown as %s, allowed %s" % (src, acct, ca if where == 0 else None, got, SS.ALLOWED[cls])
        want_b = "RUNNING" if not bfin else ("FAILED" if acct else "UNKNOWN")
        if backend.status(T["B"]).name != want_b:
            return "the other tracked target B is shown as %s, expected %s" % (backend.status(T["B"]).name, want_b)
        if backend.status(T["C"]).name != "UNKNOWN":
            return "untracked target C shown as %s" % backend.status(T["C"]).name
        return ""
    finally:
        w.uninstall()


def _q8a_other(code, foreign):
    be = q.SHARD["be"]
    table = {"lsf": BJ, "sge": QS, "local": LO}[be]
    ref = {"lsf": SS.BJOBS, "sge": SS.QSTAT, "local": SS.LOCAL}[be]
    if not (q.in_range(code, len(table)) and q.in_range(foreign, len(FOREIGN))):
        return q.SKIP
    c = q.pick(table, code)
    fo = q.pick(FOREIGN, foreign)
    ida, idb = ("55", "56") if be != "local" else (55, 56)
    with q.notrace():
        w = _world(be)
        w.vfs.add(w.tracked_path(), 1, json.dumps({"A": ida, "B": idb}))
        if be == "local":
            if c is not None:
                w.pool.tasks[55] = {"name": "A", "deps": [], "state": c, "script": "", "working_dir": ""}
            w.pool.tasks[56] = {"name": "B", "deps": [], "state": "RUNNING", "script": "", "working_dir": ""}
            for i, st in fo:
                w.pool.tasks[int(i)] = {"name": "other", "deps": [], "state": "FAILED", "script": "", "working_dir": ""}
        else:
            if c is not None and not (be == "lsf" and c == ""):
                w.sim.add_job("55", "A", c, in_queue=True)
            w.sim.add_job("56", "B", "r" if be == "sge" else "RUN", in_queue=True)
            if be == "sge":
                w.sim.foreign = [(i, "Eqw") for i, st in fo]
            else:
                for i, st in fo:
                    w.sim.add_job(i, "other", "EXIT", in_queue=True)
        w.install()
    try:
        backend = _backend(w)
        got = backend.status(T["A"]).name
        cls = ref[c]
        if not SS.ok(cls, got):
            return "%s reports %r for A's job: shown as %s, allowed %s" % (be, c, got, SS.ALLOWED[cls])
        if backend.status(T["B"]).name != "RUNNING":
            return "the other tracked target B (running) is shown as %s" % backend.status(T["B"]).name
        if backend.status(T["C"]).name != "UNKNOWN":
            return "untracked target C shown as %s" % backend.status(T["C"]).name
        return ""
    finally:
        w.uninstall()


def q8a_slurm(where: int, code_q: int, code_a: int, acct: bool, foreign: int, bfin: bool) -> str:
    """
    post: _ == ""
    """
    return q.run(_q8a_slurm, (where, code_q, code_a, acct, foreign, bfin))


def q8a_other(code: int, foreign: int) -> str:
    """
    post: _ == ""
    """
    return q.run(_q8a_other, (code, foreign))


# ---------------------------------------------------------------- Q8c persistence + resubmission replaces
def _transient(w, jid):
    """The job exists but the scheduler's answer about it is temporarily unhelpful."""
    be = w.backend
    if be == "sge":
        w.sim.jobs[jid].state = "Eqw"          # error state until the administrator clears it
        w.sim.jobs[jid].in_queue = True
    elif be == "slurm":
        w.sim.jobs[jid].in_queue = False       # left the queue, accounting record not written yet
        w.sim.jobs[jid].acct = False
    elif be == "lsf":
        w.sim.jobs[jid].in_queue = False       # bjobs answers nothing for a moment (mbatchd busy)
    else:
        w.pool.tasks[jid]["state"] = "UNKNOWN"


def _q8c(s_old, s_new, resub, mid):
    """Invocation 1 submits A.  Invocation 2: optional resubmission (new job).  Invocation 3 reads the
    state: it must be that of the latest job only."""
    be = q.SHARD["be"]
    states = ["pending", "running", "failed", "done"]
    if not (q.in_range(s_old, 4) and q.in_range(s_new, 4)):
        return q.SKIP
    so, sn = q.pick(states, s_old), q.pick(states, s_new)
    resub = True if resub else False
    if not q.in_range(mid, 4):
        return q.SKIP
    mid = q.pick([0, 1, 2, 3], mid)
    with q.notrace():
        w = _world(be)
        w.install()
    try:
        with _backend(w) as b1:
            b1.submit(T["A"], [])
        id1 = abst.jobs_by_cmd(w)[-1]["id"]
        if mid:
            # an invocation in between (gwf status) sees the job in a transient condition, or in a state the scheduler
            # later revises (a failed job requeued under the same id); nothing may be forgotten or remembered wrongly
            if mid == 1:
                _transient(w, id1)
            else:
                abst.set_state(w, id1, "failed" if mid == 2 else "pending")
            with _backend(w) as bm:
                bm.status(T["A"])
            if be == "slurm":
                w.sim.jobs[id1].acct = None
        abst.set_state(w, id1, so)
        latest, st = id1, so
        if resub:
            with _backend(w) as b2:
                seen = b2.status(T["A"]).name
                b2.submit(T["A"], [])
            id2 = abst.jobs_by_cmd(w)[-1]["id"]
            if str(id2) == str(id1):
                return "resubmission reused the id"
            abst.set_state(w, id2, sn)
            latest, st = id2, sn
        b3 = _backend(w)
        got = b3.status(T["A"]).name
        want = abst.EXPECT[be][st]
        names = ["UNKNOWN", "SUBMITTED", "RUNNING", "COMPLETED", "FAILED", "CANCELLED"]
        allowed = (names[want],) if want not in (0, 3) else ("UNKNOWN", "COMPLETED")
        if got not in allowed:
            return "latest job %s is %s (older job %s was %s): shown as %s, allowed %s" % (latest, st, id1, so, got, allowed)
        return ""
    finally:
        w.uninstall()


def q8c(s_old: int, s_new: int, resub: bool, mid: int) -> str:
    """
    post: _ == ""
    """
    return q.run(_q8c, (s_old, s_new, resub, mid))


# ---------------------------------------------------------------- Q8d sacct batching
def _q8d(n, bs):
    if not (0 <= n and n <= 5 and 1 <= bs and bs <= 3):
        return q.SKIP
    k = 0
    while k < n:
        k += 1
    b = 1
    while b < bs:
        b += 1
    with q.notrace():
        w = _world("slurm")
        ids = [str(200 + i) for i in range(k)]
        for i in ids:
            w.sim.add_job(i, "t", "F", in_queue=False)
        w.install()
    try:
        ops = slurm_mod.SlurmOps(ROOT, "full", True, target_defaults={})
        res = ops.get_job_states_from_sacct_batched(list(ids), batch_size=b)
        asked = []
        for e, a, i in w.sim.log:
            if e == "sacct":
                asked.extend(a[a.index("--jobs") + 1].split(","))
        if sorted(asked) != sorted(ids):
            return "%d ids, batch size %d: sacct was asked for %s" % (k, b, asked)
        if sorted(res) != sorted(ids) or any(v != BackendStatus.FAILED for v in res.values()):
            return "%d ids, batch size %d: result %s" % (k, b, res)
        return ""
    finally:
        w.uninstall()


def q8d(n: int, bs: int) -> str:
    """
    post: _ == ""
    """
    return q.run(_q8d, (n, bs))


# ---------------------------------------------------------------- Q8e restart of the local pool
def _q8e(restart, same_id, st):
    if not q.in_range(st, 3):
        return q.SKIP
    restart = True if restart else False
    same_id = True if same_id else False
    if not restart and same_id:
        return q.SKIP        # within one pool ids are unique (C14)
    if restart and same_id and q.excluded("C08-local-pool-restart"):
        return q.SKIP
    state = q.pick(["RUNNING", "FAILED", "SUBMITTED"], st)
    with q.notrace():
        w = _world("local")
        w.vfs.add(w.tracked_path(), 1, json.dumps({"A": 3}))
        if not restart:
            w.pool.tasks[3] = {"name": "A", "deps": [], "state": "RUNNING", "script": "", "working_dir": ""}
        # after a restart A's task no longer exists; a task of another target got id 3 or 4
        fid = 3 if same_id else 4
        if restart:
            w.pool.tasks[fid] = {"name": "Z", "deps": [], "state": state, "script": "", "working_dir": ""}
        w.install()
    try:
        got = _backend(w).status(T["A"]).name
        want = ("RUNNING",) if not restart else ("UNKNOWN", "COMPLETED")
        if got not in want:
            return "pool restarted=%s, foreign task with %s id in state %s: A shown as %s, its own job is %s" % (restart, "the same" if same_id else "another", state, got, "running" if not restart else "gone")
        return ""
    finally:
        w.uninstall()


def q8e(restart: bool, same_id: bool, st: int) -> str:
    """
    post: _ == ""
    """
    return q.run(_q8e, (restart, same_id, st))


def w8e(restart: bool, same_id: bool, st: int) -> str:
    """
    post: _ == ""
    """
    return q.run(_q8e, (restart, same_id, st))


QUERIES = [
    {"name": "Q8a-slurm", "fn": q8a_slurm,
     "shards": {"quick": [{"where": 0, "lags": [len(SA), SA.index("FAILED")], "foreign": [0, 2]}, {"where": 0, "lags": [SA.index("PENDING"), SA.index("COMPLETED")], "foreign": [2]},
                          {"where": 1, "foreign": [0, 2]}, {"where": 2, "foreign": [0, 1, 2, 3, 4]}],
                "thorough": [{"where": 0, "lags": [k], "foreign": [0, 1, 2, 3, 4]} for k in range(len(SA) + 1)] + [{"where": 1, "foreign": [0, 1, 2, 3, 4]}, {"where": 2, "foreign": [0, 1, 2, 3, 4]}]},
     "timeout": {"quick": 900, "thorough": 1800},
     "bound": "own job: row in squeue with each of the 24 documented codes (with each of 16 stale sacct states or none), or accounting row only (16 states), or no record; accounting on/off; the other tracked job running or finished (accounting only); 5 sets of unrelated jobs incl. id prefix/extension collisions (5, 555, 1055 vs 55)"},
    {"name": "Q8a-other", "fn": q8a_other, "shards": [{"be": "lsf"}, {"be": "sge"}, {"be": "local"}], "timeout": 600,
     "bound": "own job in each documented state of bjobs (12 incl. empty answer) / qstat (22 incl. absent) / the pool (8 incl. absent); 5 sets of unrelated jobs"},
    {"name": "Q8c", "fn": q8c, "shards": [{"be": b} for b in ("slurm", "sge", "lsf", "local")], "timeout": 600,
     "bound": "invocations: submit, optionally a status while the job is in a transient condition (SGE error state Eqw, Slurm: in neither squeue nor sacct, LSF: empty bjobs answer) or failed / pending before the scheduler revises that state under the same id, optional resubmission, query; old and new job each in {pending, running, failed, done}"},
    {"name": "Q8d", "fn": q8d, "shards": [{}], "timeout": 300, "bound": "0..5 tracked ids, batch size 1..3 (symbolic); the shipped default 1024 is the same code path"},
    {"name": "Q8e", "fn": q8e, "shards": [{}], "timeout": 300, "bound": "pool restarted or not; a task of another target with the same / another id in 3 states"},
]


# ---------------------------------------------------------------- Q8f after a run that was cut short, every accepted job is still its target's job
def _q8f(kfault, kind, be_i, s_after):
    """`gwf run` on a chain of 3; the kfault-th submission fails (3 ways), so the run stops with some jobs accepted.
    The accepted jobs then move on (pending / running, symbolic).  `gwf status` must show each target whose job
    was accepted in the state of that job, and the others by their files."""
    from vf.world.proj import Project
    from vf.oracles import plan as P
    if not (q.in_range(kfault, 3) and q.in_range(kind, 3) and q.in_range(be_i, 3) and q.in_range(s_after, 2)):
        return q.SKIP
    be = q.pick(["slurm", "sge", "lsf"], be_i)
    if "be" in q.SHARD and be != q.SHARD["be"]:
        return q.SKIP
    kf, kd = q.pick([2, 3, 0], kfault), q.pick([0, 1, 2], kind)     # the 2nd or 3rd submission fails, or none
    st = q.pick(["pending", "running"], s_after)
    with q.notrace():
        pr = Project("chain3", be)
        pr.add_sources(5)
        w = pr.w
        if kf:
            w.sim.fault_only = ({"slurm": "sbatch", "sge": "qsub", "lsf": "bsub"}[be],)
            w.sim.fault_at = kf
            w.sim.fault_kind = kd
        w.install()
    try:
        try:
            w.run()
        except Exception:
            pass
        w.sim.fault_at = None
        jobs = abst.jobs_by_cmd(w)
        accepted = {j["name"]: j["id"] for j in jobs}
        for k, j in enumerate(jobs):
            abst.set_state(w, j["id"], st if k == 0 else "pending")
        table = w.status_table()
        for i, nm in enumerate(pr.names):
            if nm in accepted:
                want = ("running" if st == "running" else "submitted") if nm == jobs[0]["name"] else "submitted"
            else:
                want = "shouldrun"
            if table.get(nm) != want:
                return "the %s submission failed (kind %d); accepted jobs %s; status shows %s as %s, expected %s" % (
                    ["", "", "2nd", "3rd"][kf] if kf else "no", kd, accepted, nm, table.get(nm), want)
        return ""
    finally:
        w.uninstall()


def q8f(kfault: int, kind: int, be_i: int, s_after: int) -> str:
    """
    post: _ == ""
    """
    return q.run(_q8f, (kfault, kind, be_i, s_after))


QUERIES.append(
    {"name": "Q8f", "fn": q8f, "shards": [{"be": b} for b in ("slurm", "sge", "lsf")], "timeout": 600,
     "bound": "chain of 3; the 2nd or 3rd submission of a run fails in one of 3 ways (or none); the accepted jobs are then pending / running; the next `gwf status` shows every target in the state of its own accepted job"})
