"""C01  Up-to-date decision follows make semantics on files, timestamps and spec."""
import logging
import pathlib

from vf import q
from vf.world import vfs
from vf.world.subsec import SubSec

from gwf import core, scheduling
from gwf.backends.base import BackendStatus
from gwf.core import CachedFilesystem, FileSpecHashes, Graph, NoopSpecHashes, Status, Target, hash_spec
from gwf.scheduling import get_status_map, should_run, submit_workflow

logging.disable(logging.CRITICAL)

META = {
    "solver_reasoned": 'modification times: unbounded symbolic ints (and quarter-second multiples, SubSec) of every input and output; the gap between job finish times in Q1e. Selectors: existence, spec-hash situation, container shape.',
    "real": ["gwf.scheduling.should_run", "gwf.scheduling.schedule", "gwf.scheduling.get_status_map", "gwf.scheduling.submit_workflow",
             "gwf.scheduling.submit_backend", "gwf.core.Target.flattened_inputs/flattened_outputs", "gwf.core._flatten", "gwf.core._norm_path",
             "gwf.core.FileSpecHashes.has_changed/update", "gwf.core.NoopSpecHashes", "gwf.core.hash_spec", "gwf.core.CachedFilesystem",
             "gwf.core.Graph.from_targets"],
    "stubs": ["os.stat interposed for paths under /vfs (VFS; adversarial variant returns a fresh symbolic mtime per call in Q1d)",
              "backend = recording object with status()/submit() (its real counterpart is the subject of C02/C07/C08)",
              "spec-hash file never read from disk here (FileSpecHashes.hashes set directly; persistence is C18)"],
    "assumptions": ["modification times are modelled as mathematical integers (gwf only orders them)",
                    "sha1 is collision free on the two spec texts used"],
    "outside": ["more than 3 inputs or 3 outputs per target (the code folds with max/min; no count-dependent branch)",
                "container shapes outside the listed catalogue", "float mtimes (NaN, precision)"],
}

P = "/vfs/p/"
IN = [P + "i0", P + "i1", P + "i2"]
OUT = [P + "o0", P + "o1", P + "o2"]
# the same roles with names whose alphabetical order is the opposite of the data flow
IN_Z = [P + "raw_z0", P + "raw_z1", P + "raw_z2"]
OUT_A = [P + "clean_a0", P + "clean_a1", P + "clean_a2"]


def _spec_hashes(hs, target):
    """hs: 0 hashing off, 1 recorded == current, 2 recorded != current, 3 never recorded.
    Returns (object, spec_changed)."""
    if hs == 0:
        return NoopSpecHashes(), False
    sh = FileSpecHashes(path="/vfs/none/spec-hashes.json")
    if hs == 1:
        sh.hashes = {target.name: hash_spec(target.spec), "Other": "0" * 40}
        return sh, False
    if hs == 2:
        sh.hashes = {target.name: hash_spec(target.spec + " # edited")}
        return sh, True
    sh.hashes = {"Other": hash_spec(target.spec)}
    return sh, True


def _oracle_completed(kin, kout, mi, mo, eo, changed):
    """The statement, verbatim."""
    if kout < 1:
        return False
    for j in range(kout):
        if not eo[j]:
            return False
    for i in range(kin):
        for j in range(kout):
            if mi[i] > mo[j]:
                return False
    return not changed


# ---------------------------------------------------------------- Q1a
def _q1a(i0, i1, i2, o0, o1, o2, e0, e1, e2, hs):
    kin, kout = q.SHARD["kin"], q.SHARD["kout"]
    if not q.in_range(hs, 4):
        return q.SKIP
    mi, mo, eo = [i0, i1, i2], [o0, o1, o2], [e0, e1, e2]
    ins, outs = (IN_Z, OUT_A) if q.SHARD.get("names") == "reversed" else (IN, OUT)
    t = Target(name="T", inputs=ins[:kin], outputs=outs[:kout], options={}, working_dir="/vfs/p", spec="do it")
    wrap = SubSec if q.SHARD.get("subsec") else (lambda x: x)
    cache = {}
    for i in range(kin):
        cache[ins[i]] = wrap(mi[i])
    for j in range(kout):
        cache[outs[j]] = wrap(mo[j]) if eo[j] else None
    fs = CachedFilesystem(cache=cache)
    sh, changed = _spec_hashes(hs, t)
    got_run = should_run(t, fs, sh)
    want_completed = _oracle_completed(kin, kout, mi, mo, eo, changed)
    if got_run == (not want_completed):
        return ""
    return "should_run=%s but make-spec says completed=%s" % (got_run, want_completed)


def q1a(i0: int, i1: int, i2: int, o0: int, o1: int, o2: int, e0: bool, e1: bool, e2: bool, hs: int) -> str:
    """
    post: _ == ""
    """
    return q.run(_q1a, (i0, i1, i2, o0, o1, o2, e0, e1, e2, hs))


# ---------------------------------------------------------------- Q1b grouping independence
class _PL:
    """A minimal os.PathLike (path objects are legal path values)."""

    def __init__(self, p):
        self.p = p

    def __fspath__(self):
        return self.p


def shapes(paths):
    """Container shapes that all declare exactly the path set `paths` (catalogue)."""
    n = len(paths)
    out = [("flat list", list(paths)), ("tuple", tuple(paths)), ("nested lists", [[p] for p in paths]),
           ("list with an empty list", [[]] + list(paths)), ("named, one group", {"A": list(paths)}),
           ("named, one group + empty group", {"A": list(paths), "Z": []}),
           ("deeply nested", [[[p for p in paths]]]), ("dict of dict", {"A": {"B": list(paths)}})]
    if n == 1:
        out += [("bare str", paths[0]), ("named str", {"A": paths[0]}), ("relative spelling", ["./" + paths[0][len(P):]]),
                ("pathlib object", [pathlib.PurePosixPath(paths[0])]), ("PathLike object", [_PL(paths[0])])]
    if n == 2:
        out += [("named, two groups", {"A": paths[0], "B": [paths[1]]}), ("mixed nesting", [paths[0], [paths[1]]]),
                ("reversed order", [paths[1], paths[0]]), ("duplicate mention", [paths[0], paths[1], paths[0]]),
                ("path object + str", [pathlib.PurePosixPath(paths[0]), paths[1]]),
                ("other spellings", ["./" + paths[0][len(P):], "sub/../" + paths[1][len(P):]])]
    if n == 0:
        out = [("empty list", []), ("empty tuple", ()), ("empty dict", {}), ("named empty group", {"A": []}),
               ("nested empty list", [[]]), ("two named empty groups", {"A": [], "B": ()})]
    return out


def _mk_target(ins, outs):
    return Target(name="T", inputs=ins, outputs=outs, options={}, working_dir="/vfs/p", spec="do it")


def _q1b(i0, i1, o0, o1, e0, e1, hs, si, so):
    kin, kout = q.SHARD["kin"], q.SHARD["kout"]
    ishapes, oshapes = shapes(IN[:kin]), shapes(OUT[:kout])
    if not (q.in_range(hs, 4) and q.in_range(si, len(ishapes)) and q.in_range(so, len(oshapes))):
        return q.SKIP
    if "so" in q.SHARD and so != q.SHARD["so"]:
        return q.SKIP
    if "si" in q.SHARD and si != q.SHARD["si"]:
        return q.SKIP
    side = q.SHARD.get("side", "both")
    if side == "in" and so != 0:
        return q.SKIP
    if side == "out" and si != 0:
        return q.SKIP
    iname, ins = q.pick(ishapes, si)
    oname, outs = q.pick(oshapes, so)
    if kout == 0 and q.excluded("C01-empty-named-outputs") and (oname in ("named empty group", "nested empty list", "two named empty groups")):
        return q.SKIP
    mi, mo, eo = [i0, i1], [o0, o1], [e0, e1]
    t = _mk_target(ins, outs)
    cache = {}
    for i in range(kin):
        cache[IN[i]] = mi[i]
    for j in range(kout):
        cache[OUT[j]] = mo[j] if eo[j] else None
    sh, changed = _spec_hashes(hs, t)
    got_run = should_run(t, CachedFilesystem(cache=dict(cache)), sh)
    want_completed = _oracle_completed(kin, kout, mi, mo, eo, changed)
    if got_run != (not want_completed):
        return "inputs as %s, outputs as %s: should_run=%s, make-spec on the path set says completed=%s" % (iname, oname, got_run, want_completed)
    return ""


def q1b(i0: int, i1: int, o0: int, o1: int, e0: bool, e1: bool, hs: int, si: int, so: int) -> str:
    """
    post: _ == ""
    """
    return q.run(_q1b, (i0, i1, o0, o1, e0, e1, hs, si, so))


# ---------------------------------------------------------------- Q1c composition through get_status_map / submit_workflow
class RecBackend:
    """Recording stand-in for the backend (C02/C07/C08 treat the real one)."""
    target_defaults = {}

    def __init__(self, states):
        self.states = states
        self.submitted = []

    def status(self, target):
        return self.states.get(target.name, BackendStatus.UNKNOWN)

    def submit(self, target, dependencies):
        self.submitted.append((target.name, sorted(d.name for d in dependencies)))


def _q1c(ms, ma, mb, ea, eb, ba, bb, hs):
    """Chain S -> A -> B over the VFS with the real CachedFilesystem (real os.stat path):
    for a target with no live/failed/cancelled job whose dependencies are complete, status is
    COMPLETED iff make-spec, and a run submits it iff not."""
    if not (q.in_range(hs, 4) and q.in_range(ba, 2) and q.in_range(bb, 2)):
        return q.SKIP
    w = vfs.VFS()
    wrap = SubSec if q.SHARD.get("subsec") else (lambda x: x)
    w.add(P + "src", wrap(ms))
    if ea:
        w.add(P + "a", wrap(ma))
    if eb:
        w.add(P + "b", wrap(mb))
    vfs.install(w)
    try:
        A = Target(name="A", inputs=["src"], outputs={"out": "a"}, options={}, working_dir="/vfs/p", spec="make a")
        B = Target(name="B", inputs=[["a"]], outputs=("b",), options={}, working_dir="/vfs/p", spec="make b")
        fs = CachedFilesystem()
        graph = Graph.from_targets({"A": A, "B": B}, fs)
        states = {}
        if ba == 1:
            states["A"] = BackendStatus.COMPLETED
        if bb == 1:
            states["B"] = BackendStatus.COMPLETED
        if hs == 0:
            sh = NoopSpecHashes()
            chg = {"A": False, "B": False}
        else:
            sh = FileSpecHashes(path="/vfs/none/spec-hashes.json")
            sh.hashes = {}
            chg = {"A": True, "B": True}
            if hs in (1, 2):
                sh.hashes["A"] = hash_spec(A.spec); chg["A"] = False
            if hs in (1, 3):
                sh.hashes["B"] = hash_spec(B.spec); chg["B"] = False
        be = RecBackend(states)
        smap = get_status_map(graph, fs, sh, be)
        a_completed = _oracle_completed(1, 1, [ms], [ma], [ea], chg["A"])
        if (smap[A] == Status.COMPLETED) != a_completed:
            return "A shown %s, make-spec completed=%s" % (smap[A].name, a_completed)
        if smap[A] != Status.COMPLETED and smap[A] != Status.SHOULDRUN:
            return "A shown " + smap[A].name
        if a_completed:
            b_completed = _oracle_completed(1, 1, [ma], [mb], [eb], chg["B"])
            if (smap[B] == Status.COMPLETED) != b_completed:
                return "B shown %s, make-spec completed=%s" % (smap[B].name, b_completed)
        else:
            b_completed = False
            if smap[B] != Status.SHOULDRUN:
                return "B shown %s although A is not complete" % smap[B].name
        fs2 = CachedFilesystem()
        be2 = RecBackend(states)
        submit_workflow(graph.endpoints(), graph, fs2, sh, be2)
        names = sorted(n for n, _ in be2.submitted)
        want = sorted(n for n, c in (("A", a_completed), ("B", b_completed)) if not c)
        if names != want:
            return "run submitted %s, expected %s" % (names, want)
        return ""
    finally:
        vfs.uninstall()


def q1c(ms: int, ma: int, mb: int, ea: bool, eb: bool, ba: int, bb: int, hs: int) -> str:
    """
    post: _ == ""
    """
    return q.run(_q1c, (ms, ma, mb, ea, eb, ba, bb, hs))


# ---------------------------------------------------------------- Q1l declared files that are symbolic links
def _q1l(ms, ml, ma, mo, which, ea):
    """Target A: input src, output a.  which 0: src is a symbolic link (own time ml) to data/raw (time ms);
    1: the output a is a link (own time ml) to store/a (time ma); 2: a is a dangling link (the output does not exist);
    3: both are links.  What counts is the file a path refers to (os.stat), never the link's own time."""
    if not q.in_range(which, 4):
        return q.SKIP
    wh = q.pick([0, 1, 2, 3], which)
    ea = True if ea else False
    w = vfs.VFS()
    if wh in (0, 3):
        w.add(P + "data/raw", ms)
        w.links[P + "src"] = P + "data/raw"
        w.link_mtime[P + "src"] = ml
    else:
        w.add(P + "src", ms)
    if wh in (1, 3):
        if ea:
            w.add(P + "store/a", ma)
        w.dirs.add(P + "store")
        w.links[P + "a"] = P + "store/a"
        w.link_mtime[P + "a"] = mo
    elif wh == 2:
        w.links[P + "a"] = P + "store/gone"
        w.link_mtime[P + "a"] = mo
        ea = False
    elif ea:
        w.add(P + "a", ma)
    vfs.install(w)
    try:
        A = Target(name="A", inputs=["src"], outputs=["a"], options={}, working_dir="/vfs/p", spec="make a")
        fs = CachedFilesystem()
        graph = Graph.from_targets({"A": A}, fs)
        smap = get_status_map(graph, fs, NoopSpecHashes(), RecBackend({}))
        want = _oracle_completed(1, 1, [ms], [ma], [ea], False)
        if (smap[A] == Status.COMPLETED) != want:
            return "link case %d: A shown %s, make-spec completed=%s (file times src %s, a %s; link times %s / %s)" % (wh, smap[A].name, want, ms, ma, ml, mo)
        be2 = RecBackend({})
        submit_workflow(graph.endpoints(), graph, CachedFilesystem(), NoopSpecHashes(), be2)
        if (len(be2.submitted) == 0) != want:
            return "link case %d: run submitted %s, make-spec completed=%s" % (wh, be2.submitted, want)
        return ""
    finally:
        vfs.uninstall()


def q1l(ms: int, ml: int, ma: int, mo: int, which: int, ea: bool) -> str:
    """
    post: _ == ""
    """
    return q.run(_q1l, (ms, ml, ma, mo, which, ea))


# ---------------------------------------------------------------- Q1f the cached file system answers what os.stat answers, in any lookup order
FPATHS = ["run1/a.txt", "run10/a.txt", "run1.tar", "run1_x/y.txt", "out", "output/z.txt", "run1", "output", "run10/sub/b.txt", "ru"]


def _q1f(e0, e1, e2, e3, e4, e5, e8, m, i, j, k):
    """Files whose paths are string prefixes of one another (directory run1 next to run10, file out next to directory
    output/): existence of each symbolic, one modification time symbolic.  Three lookups (any three paths of the
    catalogue, symbolic selectors) through ONE CachedFilesystem: every answer is what the file system says."""
    n = len(FPATHS)
    if not (q.in_range(i, n) and q.in_range(j, n) and q.in_range(k, n)):
        return q.SKIP
    if "i" in q.SHARD and i != q.SHARD["i"]:
        return q.SKIP
    if q.SHARD.get("two") and k != j:
        return q.SKIP        # quick: two distinct lookups (the third repeats the second)
    ex = [e0, e1, e2, e3, e4, e5, False, False, e8, False]
    w = vfs.VFS()
    w.dirs.add("/vfs/p")
    present = []
    for idx in (0, 1, 2, 3, 4, 5, 8):
        if ex[idx]:
            w.add(P + FPATHS[idx], m)
            present.append(idx)
    vfs.install(w)
    try:
        fs = CachedFilesystem()
        for sel in (i, j, k):
            rel = q.pick(FPATHS, sel)
            path = P + rel
            truth = path in w.files or w.is_dir(path)
            got = fs.exists(path)
            if got != truth:
                return "exists(%r) = %s after looking up %s; on disk: %s (files present: %s)" % (rel, got, [FPATHS[x] for x in (i, j, k)], truth, [FPATHS[x] for x in present])
            if truth and path in w.files:
                if fs.changed_at(path) != m:
                    return "changed_at(%r) differs from the file's modification time" % rel
            if not truth:
                try:
                    fs.changed_at(path)
                    return "changed_at(%r) answers for a file that does not exist" % rel
                except FileNotFoundError:
                    pass
        return ""
    finally:
        vfs.uninstall()


def q1f(e0: bool, e1: bool, e2: bool, e3: bool, e4: bool, e5: bool, e8: bool, m: int, i: int, j: int, k: int) -> str:
    """
    post: _ == ""
    """
    return q.run(_q1f, (e0, e1, e2, e3, e4, e5, e8, m, i, j, k))


# ---------------------------------------------------------------- Q1d snapshot of the file system
def _q1d(i_first, i_later, o_first, o_later, eo):
    """os.stat returns a different mtime on every later call (files change while gwf runs):
    the decision must be the one for the first observation of each path, and each path is
    stat'ed at most once per CachedFilesystem."""
    w = vfs.VFS()
    w.add(P + "i0", i_first)
    if eo:
        w.add(P + "o0", o_first)
    later = {P + "i0": i_later, P + "o0": o_later}

    def hook(path, nth):
        if nth >= 2:
            return later[path]
        return None
    w.stat_hook = hook
    vfs.install(w)
    try:
        t = Target(name="T", inputs=["i0"], outputs=["o0"], options={}, working_dir="/vfs/p", spec="x")
        fs = CachedFilesystem()
        r1 = should_run(t, fs, NoopSpecHashes())
        r2 = should_run(t, fs, NoopSpecHashes())
        want = not _oracle_completed(1, 1, [i_first], [o_first], [eo], False)
        if r1 != want or r2 != want:
            return "decision %s/%s, expected %s for the first observation" % (r1, r2, want)
        for p, n in w.stat_calls.items():
            if n > 1:
                return "path %s stat'ed %d times through one CachedFilesystem" % (p, n)
        return ""
    finally:
        vfs.uninstall()


def q1d(i_first: int, i_later: int, o_first: int, o_later: int, eo: bool) -> str:
    """
    post: _ == ""
    """
    return q.run(_q1d, (i_first, i_later, o_first, o_later, eo))


def _grid(n):
    return [{"kin": a, "kout": b} for a in range(n + 1) for b in range(n + 1)]


QUERIES = [
    {"name": "Q1a", "fn": q1a, "shards": {"quick": _grid(2) + [dict(g, subsec=True) for g in _grid(2) if g["kin"] and g["kout"]] + [dict(g, names="reversed") for g in _grid(2) if g["kin"] and g["kout"]],
                "thorough": _grid(3) + [dict(g, subsec=True) for g in _grid(3)] + [dict(g, names="reversed") for g in _grid(3)]},
     "timeout": {"quick": 240, "thorough": 900},
     "bound": "k_in,k_out in 0..2 (quick) / 0..3 (thorough); mtimes unbounded symbolic ints, and - subsec shards - symbolic multiples of a quarter second that compare like reals but truncate under int(); existence of every output; 4 spec-hash situations; file names in data-flow alphabetical order and - 'reversed' shards - in the opposite order"},
    {"name": "Q1b", "fn": q1b,
     "shards": {"quick": [dict(g, side=sd) for g in ({"kin": 0, "kout": 0}, {"kin": 1, "kout": 1}, {"kin": 2, "kout": 1}, {"kin": 1, "kout": 2}) for sd in ("in", "out")],
                "thorough": [dict(g, side="in", si=k) for g in _grid(2) for k in range(len(shapes(IN[:g["kin"]])))]
                            + [dict(g, side="out", so=k) for g in _grid(2) for k in range(len(shapes(OUT[:g["kout"]])))]
                            + [{"kin": 1, "kout": 1, "side": "both", "si": k} for k in range(len(shapes(IN[:1])))] + [{"kin": 0, "kout": 0, "side": "both"}]},
     "timeout": {"quick": 240, "thorough": 1200},
     "bound": "(k_in,k_out) in {(0,0),(1,1),(2,1),(1,2)} (quick) / 0..2 squared (thorough); container shape catalogue of vf/props/C01.py:shapes(), "
              "varied on one side at a time (the other side flat list); thorough adds inputs x outputs shapes jointly for (1,1) and (0,0)"},
    {"name": "Q1c", "fn": q1c, "shards": [{}, {"subsec": True}], "timeout": {"quick": 400, "thorough": 900},
     "bound": "chain src->A->B over the VFS; symbolic mtimes/existence; backend state unknown/completed per target; 4 hash situations"},
    {"name": "Q1l", "fn": q1l, "shards": [{}], "timeout": 300,
     "bound": "1 target, 1 input, 1 output; the input and/or the output is a symbolic link (incl. a dangling one) whose own modification time is a further symbolic int: only the time of the file referred to counts"},
    {"name": "Q1f", "fn": q1f, "shards": {"quick": [{"i": 0, "two": 1}, {"i": 4, "two": 1}, {"i": 6, "two": 1}], "thorough": [{"i": x} for x in range(len(FPATHS))]}, "timeout": {"quick": 600, "thorough": 2400},
     "bound": "catalogue of %d paths that are string prefixes of one another (directory run1 beside run10, file out beside directory output/, ...), existence of 7 files symbolic, lookups in any order through one CachedFilesystem (quick: two lookups, the first from 3 of the paths; thorough: three lookups over all)" % len(FPATHS)},
    {"name": "Q1d", "fn": q1d, "shards": [{}], "timeout": 120,
     "bound": "1 input, 1 output, two should_run calls on one CachedFilesystem, os.stat answering differently from the 2nd call on"},
]


# ---------------------------------------------------------------- Q1e  "script unchanged since it was last submitted or touched" over a history
from vf.world import abst
from vf.world.proj import Project


def _q1e(edit_a, edit_b, fail_a, use_touch, mtime_gap, mid):
    """Spec hashing on.  run (A, B accepted); A's job succeeds or fails (B's is then cancelled); the specs of A
    and/or B are edited; then either `gwf run` + successful jobs or `gwf touch`.  Afterwards every target was
    submitted/touched with its current script, its outputs are newer than its inputs (symbolic gap >= 0), so
    status must show completed and a further run must submit nothing."""
    if not (mtime_gap >= 0):
        return q.SKIP
    edit_a, edit_b, fail_a, use_touch = [True if x else False for x in (edit_a, edit_b, fail_a, use_touch)]
    if fail_a and use_touch:
        return q.SKIP        # the backend still holds a failed job for A: the statement's precondition does not hold
    if not q.in_range(mid, 4) or (fail_a and mid != 0):
        return q.SKIP
    mid = q.pick([0, 1, 2, 3], mid)
    with q.notrace():
        pr = Project("chain2", "slurm", hashing=True)
        pr.add_sources(5)
        w = pr.w
        w.vfs.clock = 100
        w.install()
    try:
        w.concretely(w.run)
        jobs = abst.jobs_by_cmd(w)
        t = 100
        for j in jobs:
            if fail_a:
                abst.set_state(w, j["id"], "failed" if j["name"] == "A" else "cancelled")
            else:
                t = t + 10
                w.vfs.add("/vfs/proj/" + pr.outputs[pr.idx(j["name"])][0], t, "made by first run")
                abst.set_state(w, j["id"], "done")
        if mid:
            # an invocation restricted to one target in between: nothing is stale, so it submits nothing and the other target stays completed
            n_mid = len(abst.jobs_by_cmd(w))
            if mid == 1:
                w.run(("A",))
            elif mid == 2:
                w.run(("B",), dry_run=True)
            else:
                w.status_table(targets=("A",))
            table = w.status_table()
            if table != {"A": "completed", "B": "completed"} or len(abst.jobs_by_cmd(w)) != n_mid:
                return "after a full run with successful jobs and then %s, status shows %s (submissions since: %d)" % (
                    ["", "run A", "run --dry-run B", "status A"][mid], table, len(abst.jobs_by_cmd(w)) - n_mid)
        if edit_a:
            pr.targets["A"].spec = "make A --with-new-flag"
        if edit_b:
            pr.targets["B"].spec = "make B --with-new-flag"
        n0 = len(jobs)
        if use_touch:
            w.vfs.clock = 200
            w.touch(())
        else:
            w.run()
            t = 200
            for j in abst.jobs_by_cmd(w)[n0:]:
                t = t + mtime_gap
                w.file(pr.outputs[pr.idx(j["name"])][0], t, "made by second run")
                abst.set_state(w, j["id"], "done")
            # finished jobs are eventually forgotten by the scheduler: the file-based decision applies
        table = w.status_table()
        want = {"A": "completed", "B": "completed"}
        if table != want:
            return "edited A:%s B:%s, first job of A %s, then %s: status shows %s although every script is unchanged since it was last %s" % (
                edit_a, edit_b, "failed" if fail_a else "succeeded", "touch" if use_touch else "run + successful jobs", table, "touched" if use_touch else "submitted")
        n1 = len(abst.jobs_by_cmd(w))
        w.run()
        again = [j["name"] for j in abst.jobs_by_cmd(w)[n1:]]
        if again:
            return "a further run submits %s" % again
        return ""
    finally:
        w.uninstall()


def q1e(edit_a: bool, edit_b: bool, fail_a: bool, use_touch: bool, mtime_gap: int, mid: int) -> str:
    """
    post: _ == ""
    """
    return q.run(_q1e, (edit_a, edit_b, fail_a, use_touch, mtime_gap, mid))


QUERIES.append(
    {"name": "Q1e", "fn": q1e, "shards": [{}], "timeout": {"quick": 600, "thorough": 900},
     "bound": "chain of 2 on the Slurm simulator with spec hashing on: run; first job of A succeeds or fails; optionally an invocation restricted to one target (run A / run --dry-run B / status A); spec of A and/or B edited or not; then run + successful jobs (outputs dated with a symbolic gap >= 0) or touch; then status and run"})
META["real"] = META["real"] + ["gwf.plugins.run.run / touch.touch / status.status (bodies)", "gwf.core.FileSpecHashes.__init__/close (persistence)", "gwf.backends.slurm + TrackingBackend"]
