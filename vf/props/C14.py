"""C14  Worker pool server survives misbehaving clients and keeps tasks and ids intact."""
import json

from vf import q
from vf.props import localpool as LP
from vf.world.poolworld import FINAL, LocalStatus, Pool

from gwf.backends.local import Server, encode

META = dict(LP.META_COMMON)
META["solver_reasoned"] = 'selectors over message shapes and interleaving positions.'
META["real"] = ["gwf.backends.local.Server.handle_connection", "gwf.backends.local.Server.send_response", "gwf.backends.local.encode", "gwf.backends.local.CustomEncoder"] + LP.META_COMMON["real"]
META["stubs"] = LP.META_COMMON["stubs"] + ["stream reader/writer per connection (readline returns the next line, b'' at EOF)"]
META["outside"] = ["arbitrary byte sequences (json decoding is C code: a catalogue of message shapes is used)", "the TCP accept loop, partial lines", "the 'shutdown' request (a legitimate command)"] + LP.META_COMMON["outside"]


class Spin(BaseException):
    """The connection handler keeps calling readline() on a reset connection without ever yielding: the
    event loop of the whole pool is frozen."""


class Reader:
    def __init__(self, loop):
        self.loop = loop
        self.lines = []
        self.waiter = None
        self.eof = False
        self.was_reset = False
        self.raised = 0

    def reset(self):
        """The peer reset the connection: asyncio stores the error and every later read re-raises it at once."""
        self.was_reset = True
        if self.waiter is not None and not self.waiter.done():
            self.waiter.set_result(None)

    async def readline(self):
        while not self.lines:
            if self.was_reset:
                self.raised += 1
                if self.raised > 25:
                    raise Spin()
                raise ConnectionResetError(104, "Connection reset by peer")
            if self.eof:
                return b""
            self.waiter = self.loop.create_future()
            await self.waiter
        return self.lines.pop(0)

    def feed(self, data):
        self.lines.append(data)
        if self.waiter is not None and not self.waiter.done():
            self.waiter.set_result(None)

    def feed_eof(self):
        self.eof = True
        if self.waiter is not None and not self.waiter.done():
            self.waiter.set_result(None)


class Writer:
    """What the client at the other end receives.  A client reads one line per request it sent (`next_line`);
    several replies in one write, or a reply that belongs to somebody else, shift what it reads - as in reality."""

    def __init__(self):
        self.out = []
        self.broken = False
        self.nread = 0

    def all_lines(self):
        data = b"".join(self.out)
        return [ln + b"\n" for ln in data.split(b"\n") if ln != b""]

    def next_line(self):
        lines = self.all_lines()
        if self.nread >= len(lines):
            return None
        self.nread += 1
        return lines[self.nread - 1]

    def write(self, b):
        if self.broken:
            raise ConnectionResetError("peer went away")
        self.out.append(b)

    async def drain(self):
        if self.broken:
            raise ConnectionResetError("peer went away")

    def close(self):
        pass


def msg(kind, **kw):
    return encode(kind, **kw).encode()


ENQ = dict(name="x", script="job x", time_limit=None, working_dir="/vfs/proj", deps=[])
MSGS = [
    ("valid enqueue", msg("enqueue_task", **ENQ)),
    ("enqueue, unknown dep id", msg("enqueue_task", **dict(ENQ, deps=[99]))),
    ("enqueue, deps not a list", msg("enqueue_task", **dict(ENQ, deps=5))),
    ("enqueue, script not a string", msg("enqueue_task", **dict(ENQ, script=7))),
    ("enqueue, field missing", msg("enqueue_task", name="x", script="job x", working_dir="/vfs/proj")),
    ("enqueue, extra field", msg("enqueue_task", **dict(ENQ, bogus=1))),
    ("enqueue depending on B's task", msg("enqueue_task", **dict(ENQ, deps=[0]))),
    ("unknown kind", msg("frobnicate")),
    ("not JSON", b"this is not json\n"),
    ("JSON list", b"[1, 2]\n"),
    ("JSON without kind", b"{\"tid\": 1}\n"),
    ("empty line", b"\n"),
    ("cancel unknown id", msg("cancel_task", tid=99)),
    ("cancel the id after next", msg("cancel_task", tid=2)),
    ("cancel the next id", msg("cancel_task", tid=1)),
    ("cancel id given as string", msg("cancel_task", tid="0")),
    ("cancel id null", msg("cancel_task", tid=None)),
    ("cancel id as list", msg("cancel_task", tid=[0])),
    ("get_task_state unknown", msg("get_task_state", tid=99)),
    ("get_task_state as string", msg("get_task_state", tid="0")),
    ("get_task_states", msg("get_task_states")),
    ("close", msg("close")),
    ("unknown kind that names a method of the scheduler", msg("kill")),
    ("unknown kind that names a method of the scheduler, with arguments", msg("try_handle_task", tid=0, name="b0", script="job b0", working_dir="/vfs/proj", time_limit=None, deps=[])),
]
CANCEL_KNOWN = ("cancel B's task (legitimate)", msg("cancel_task", tid=0))


def _q14(m0, m1, m2, drop, when, legit):
    """B enqueues a task (tid 0).  A sends up to three lines from the catalogue (and maybe drops the
    connection, or a broken pipe on its writer); B's child exits 0 before A's `when`-th line; then B
    asks for all states, enqueues another task and asks again."""
    n = len(MSGS) + 1
    if not (q.in_range(m0, n) and q.in_range(m1, n) and q.in_range(m2, n) and q.in_range(when, 4) and q.in_range(drop, 4)):
        return q.SKIP
    if legit:
        return q.SKIP if (m0 != 0 or m1 != 0 or m2 != 0) else _run([CANCEL_KNOWN], drop, when, True)
    first = q.SHARD.get("m0")
    if first is not None and m0 != first:
        return q.SKIP
    if q.SHARD.get("nlines", 3) == 2 and (m2 != len(MSGS) or when == 2):
        return q.SKIP
    if "whens" in q.SHARD and when not in q.SHARD["whens"]:
        return q.SKIP
    second = q.SHARD.get("m1")
    if second is not None and m1 != second:
        return q.SKIP
    lines = []
    for m in (m0, m1, m2):
        if m < len(MSGS):
            lines.append(q.pick(MSGS, m))
    return _run(lines, drop, when, False)


def _run(lines, drop, when, legit):
    pool = Pool(max_cores=2)
    pool.install()
    try:
        loop, sched = pool.loop, pool.sched
        srv = Server(sched)
        ra, wa, rb, wb = Reader(loop), Writer(), Reader(loop), Writer()
        ta = loop.create_task(srv.handle_connection(ra, wa))
        tb = loop.create_task(srv.handle_connection(rb, wb))
        pool.pending_names.append("b0")
        rb.feed(msg("enqueue_task", name="b0", script="job b0", time_limit=None, working_dir="/vfs/proj", deps=[]))
        pool.settle()
        ln = wb.next_line()
        if ln is None:
            return "B's enqueue got no answer"
        first = json.loads(ln)
        if first.get("__kind__") != "task_enqueued":
            return "B's enqueue answered %r" % (first,)
        tidb = first["tid"]
        pool.names[tidb] = "b0"
        exited = False
        for i, (label, data) in enumerate(lines):
            if when == i and not exited:
                p = pool.proc_of(tidb)
                if p is not None and p.alive():
                    pool.exit(p, 0)
                    pool.settle()
                exited = True
            if drop == 2:
                wa.broken = True
            pool.pending_names.append("x")
            ra.feed(data)
            pool.settle()
        if drop == 1:
            ra.feed_eof()
            pool.settle()
        if drop == 3:
            ra.reset()
            try:
                pool.settle()
            except Spin:
                ra.raised = 99
            if ra.raised > 25:          # (asyncio stores a BaseException raised inside a task instead of propagating it)
                return "after client A's connection was reset its handler spins on readline() without yielding: the pool's event loop is frozen (A sent %s)" % [l for l, d in lines]
        # let everything that was started run to its end
        for _ in range(6):
            for p in pool.live():
                pool.exit(p, 0)
                pool.settle()
            if pool.timer():
                pool.settle()
        # B is still served, with the true states
        if tb.done():
            return "the healthy client's connection handler died (%r) after A sent %s" % (tb.exception() if not tb.cancelled() else "cancelled", [l for l, d in lines])
        rb.feed(msg("get_task_states"))
        pool.settle()
        ln = wb.next_line()
        if ln is None:
            return "B's state query got no answer (A sent %s)" % [l for l, d in lines]
        raw = ln.decode()
        try:
            ans = json.loads(raw)
        except ValueError:
            return "B's state query was answered with %r" % (raw[:80],)
        if ans.get("__kind__") != "task_states":
            return "B's state query answered %r" % (ans,)
        keys = [k for k, v in json.loads(raw, object_pairs_hook=lambda pairs: pairs)[1][1]] if False else None
        pairs = json.loads(raw, object_pairs_hook=lambda ps: ps)
        tasks_pairs = [v for k, v in pairs if k == "tasks"][0]
        ids = [k for k, v in tasks_pairs]
        if len(set(ids)) != len(ids):
            return "state answer carries an id twice: %s (after A sent %s)" % (ids, [l for l, d in lines])
        true = {str(t): s.name for t, s in sched.task_states.items()}
        if ans["tasks"] != true:
            return "state answer %s differs from the pool's table %s" % (ans["tasks"], true)
        want_b = "CANCELLED" if (legit and when != 0) else "COMPLETED"
        if ans["tasks"].get(str(tidb)) != want_b:
            return "B's task is reported %s, expected %s (A sent %s)" % (ans["tasks"].get(str(tidb)), want_b, [l for l, d in lines])
        for t, st in sched.task_states.items():
            if st not in FINAL:
                return "accepted task %s is stuck in %s after everything was delivered (A sent %s)" % (t, st.name, [l for l, d in lines])
        all_ids = []
        for w in (wa, wb):
            for o in w.all_lines():
                try:
                    d = json.loads(o)
                except ValueError:
                    return "the pool wrote a line that is not JSON: %r" % (o[:80],)
                if d.get("__kind__") == "task_enqueued":
                    all_ids.append(d["tid"])
        if len(set(all_ids)) != len(all_ids):
            return "two accepted tasks share an id: %s" % all_ids
        if pool.sem.over_release or pool.sem.acq != pool.sem.rel:
            return "core accounting broken: taken %d, released %d" % (pool.sem.acq, pool.sem.rel)
        # the pool still accepts and runs new work
        pool.pending_names.append("b1")
        rb.feed(msg("enqueue_task", name="b1", script="job b1", time_limit=None, working_dir="/vfs/proj", deps=[tidb]))
        pool.settle()
        ln = wb.next_line()
        if ln is None:
            return "a later enqueue of B got no answer"
        last = json.loads(ln)
        if last.get("__kind__") != "task_enqueued" or last["tid"] in all_ids:
            return "a later enqueue was answered %r (ids so far %s)" % (last, all_ids)
        for p in pool.live():
            pool.exit(p, 0)
            pool.settle()
        st = sched.task_states[last["tid"]]
        want = LocalStatus.COMPLETED if want_b == "COMPLETED" else LocalStatus.CANCELLED
        if st != want:
            return "the later task ended %s, expected %s" % (st.name, want.name)
        return ""
    finally:
        pool.uninstall()


def q14(m0: int, m1: int, m2: int, drop: int, when: int, legit: bool) -> str:
    """
    post: _ == ""
    """
    return q.run(_q14, (m0, m1, m2, drop, when, legit))


QUERIES = [
    {"name": "Q14", "fn": q14,
     "shards": {"quick": [{"m0": k, "nlines": 2, "whens": [1, 3]} for k in (0, 1, 2, 4, 6, 8, 12, 13, 14, 15, 21, 22, len(MSGS))],
                "thorough": [{"m0": k, "nlines": 2} for k in range(len(MSGS) + 1)] + [{"m0": a, "m1": b, "nlines": 3} for a in (0, 1, 6, 13, 14) for b in (0, 2, 8, 12, 13, 14, 15, 21)]},
     "timeout": {"quick": 900, "thorough": 3000},
     "bound": "client A sends up to 3 lines, each from a catalogue of %d message shapes (%s) or nothing, then keeps the connection / closes it / its writer breaks / the connection is reset (every later read raises at once); client B's child exits before A's 1st/2nd/3rd line or after (quick: before the 2nd line or after all); "
              "quick: 2 lines, the first from 13 of the shapes, the second any; thorough: 2 lines over all pairs, 3 lines for 24 prefixes" % (len(MSGS), ", ".join(l for l, d in MSGS))},
]
