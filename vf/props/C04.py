"""C04  Validation accepts exactly well-formed workflows and names the defect otherwise."""
import sys

from vf import q
from vf.oracles import graph as G
from vf.world import graphworld as GW
from vf.world import vfs
from vf.world.cmds import ROOT, World

from gwf.core import (CachedFilesystem, CircularDependencyError, FileProvidedByMultipleTargetsError, Graph, NoopSpecHashes, Target,
                      UnresolvedInputError)
from gwf.exceptions import GWFError
from gwf.plugins.touch import touch_workflow
from gwf.scheduling import get_status_map, submit_workflow

META = {
    "solver_reasoned": 'chain length (symbolic int) in the depth query; otherwise selectors (roles incl. self-loops) and existence bits.',
    "real": ["gwf.core.Graph.from_targets", "gwf.core.check_for_circular_dependencies", "gwf.core.Graph.dfs/endpoints", "gwf.scheduling.get_status_map/submit_workflow/schedule",
             "gwf.plugins.touch.touch_workflow", "gwf.plugins.{run,status,clean,touch,cancel,info}.* (bodies) on ill-formed worlds"],
    "stubs": ["VFS for file existence and for observing side effects", "scheduler simulator for observing submissions/cancellations", "recording backend for the depth query"],
    "assumptions": ["lexical path normalisation"],
    "outside": ["more than 3 targets x 3 files (quick: 3 x 2) in the accept/reject query", "memory/time at 10^5 targets",
                "recursion depth at literally thousands of targets is only reached in the concrete replay (the symbolic query scales the interpreter's recursion budget down instead)"],
}


# ---------------------------------------------------------------- Q4a accept/reject and error kind
def _q4a(r00, r01, r02, r10, r11, r12, r20, r21, r22, e0, e1, e2):
    nt, nf, order = q.SHARD["nt"], q.SHARD["nf"], q.SHARD["order"]
    allr = [[r00, r01, r02], [r10, r11, r12], [r20, r21, r22]]
    fixed = q.SHARD.get("fix_t0")
    roles = []
    for t in range(3):
        row = []
        for f in range(3):
            r = allr[t][f]
            if t >= nt or f >= nf:
                if r != 0:
                    return q.SKIP
                continue
            if not q.in_range(r, 4):
                return q.SKIP
            if f == 2 and r >= q.SHARD.get("f2max", 4):
                return q.SKIP
            if t == 0 and fixed is not None and r != fixed[f]:
                return q.SKIP
            row.append(r)
        if t < nt:
            roles.append(row)
    exists = [e0, e1, e2][:nf]
    an = G.analyse(nt, nf, roles, exists)         # reads exists[f] only for files that are used and not produced
    conc = [[q.pick([0, 1, 2, 3], roles[t][f]) for f in range(nf)] for t in range(nt)]
    present = [True] * nf
    for f in an["unresolved"]:
        present[f] = True if exists[f] else False
    with q.notrace():                             # everything is concrete from here on for this path
        world = GW.world_with_files(nf, present)
        tl, by = GW.make_targets(nt, nf, conc, order)
        pad = q.SHARD.get("pad", 0)
        if pad:
            # an unrelated healthy pipeline in the same workflow: the verdict on the symbolic part must not depend on it
            world.add("/vfs/p/padsrc", 5, "pad source")
            chain = [Target(name="Pad%d" % k, inputs=["padsrc" if k == 0 else "pad%d" % (k - 1)], outputs=["pad%d" % k], options={}, working_dir="/vfs/p", spec="pad") for k in range(abs(pad))]
            tl = (chain + tl) if pad < 0 else (tl + chain)
    vfs.install(world)
    try:
        err = None
        try:
            g = Graph.from_targets({t.name: t for t in tl}, CachedFilesystem())
        except FileProvidedByMultipleTargetsError:
            err = "multi"
        except UnresolvedInputError:
            err = "unres"
        except CircularDependencyError:
            err = "cyclic"
        wellformed = not (an["multi"] or an["unres"] or an["cyclic"])
        if err is None and not wellformed:
            return "accepted although %s (roles %s, exists %s)" % ([k for k in ("multi", "unres", "cyclic") if an[k]], conc, exists)
        if err is not None and wellformed:
            return "well-formed workflow rejected with %s (roles %s)" % (err, conc)
        if err is not None and not an[err]:
            return "rejected with %s, but the defects present are %s (roles %s)" % (err, [k for k in ("multi", "unres", "cyclic") if an[k]], conc)
        return ""
    finally:
        vfs.uninstall()


def q4a(r00: int, r01: int, r02: int, r10: int, r11: int, r12: int, r20: int, r21: int, r22: int, e0: bool, e1: bool, e2: bool) -> str:
    """
    post: _ == ""
    """
    return q.run(_q4a, (r00, r01, r02, r10, r11, r12, r20, r21, r22, e0, e1, e2))


# ---------------------------------------------------------------- Q4u file names are what the file system says they are
NFC, NFD = "caf\u00e9", "cafe\u0301"            # two different file names on a byte-exact file system
UNI = [
    ("source exists under its decomposed name and is used under exactly that name", [("T", [NFD], ["t.out"])], [NFD], None),
    ("source exists under its composed name and is used under exactly that name", [("T", [NFC], ["t.out"])], [NFC], None),
    ("two targets write two files whose names differ only in normalisation form", [("P", [], [NFC]), ("Q", [], [NFD])], [], None),
    ("the input is missing; a file with the other normalisation form exists", [("T", [NFC], ["t.out"])], [NFD], "unres"),
    ("the input is missing; a file with the other normalisation form exists (converse)", [("T", [NFD], ["t.out"])], [NFC], "unres"),
    ("one target writes the composed name, another reads the decomposed one, which is a missing source", [("P", [], [NFC]), ("Q", [NFD], ["q.out"])], [], "unres"),
    ("upper/lower case variants are different files", [("P", [], ["Data.txt"]), ("Q", [], ["data.txt"])], [], None),
    ("a name with a trailing blank is a different file", [("T", ["in.txt "], ["t.out"])], ["in.txt"], "unres"),
    ("a consumer names the same produced file twice (in two named groups)", [("P", [], ["idx"]), ("Q", {"index": "idx", "all": ["idx", "reads"]}, ["q.out"])], ["reads"], None),
    ("a consumer names the same produced file twice in two spellings, and a third target consumes its output", [("P", [], ["idx"]), ("Q", ["idx", "./idx"], ["q.out"]), ("R", ["q.out"], ["r.out"])], [], None),
    ("a source file named twice", [("T", ["ref", "ref"], ["t.out"])], ["ref"], None),
    ("a real 2-cycle beside a duplicate mention is still a cycle", [("P", ["q.out"], ["idx"]), ("Q", ["idx", "idx"], ["q.out"])], [], "cyclic"),
]


def _q4u(k):
    if not q.in_range(k, len(UNI)):
        return q.SKIP
    label, tspec, present, want = q.pick(UNI, k)
    w = vfs.VFS()
    w.dirs.add("/vfs/p")
    for f in present:
        w.add("/vfs/p/" + f, 5, "content")
    vfs.install(w)
    try:
        targets = {nm: Target(name=nm, inputs=ins, outputs=outs, options={}, working_dir="/vfs/p", spec="x") for nm, ins, outs in tspec}
        err = None
        try:
            Graph.from_targets(targets, CachedFilesystem())
        except FileProvidedByMultipleTargetsError:
            err = "multi"
        except UnresolvedInputError:
            err = "unres"
        except CircularDependencyError:
            err = "cyclic"
        if err != want:
            return "%s: %s, expected %s" % (label, ("rejected as " + err) if err else "accepted", ("rejection as " + want) if want else "acceptance")
        return ""
    finally:
        vfs.uninstall()


def q4u(k: int) -> str:
    """
    post: _ == ""
    """
    return q.run(_q4u, (k,))


# ---------------------------------------------------------------- Q4t a source file exists whatever its modification time is
def _q4t(m, present):
    present = True if present else False
    w = vfs.VFS()
    w.dirs.add("/vfs/p")
    if present:
        w.add("/vfs/p/ref.fa", m, "reference")
    vfs.install(w)
    try:
        T = Target(name="T", inputs=["ref.fa"], outputs=["t.out"], options={}, working_dir="/vfs/p", spec="x")
        try:
            Graph.from_targets({"T": T}, CachedFilesystem())
            ok = True
        except UnresolvedInputError:
            ok = False
        if ok != present:
            return "source file %s: workflow %s" % ("exists (its modification time is the solver's choice)" if present else "is missing", "accepted" if ok else "rejected as unresolved")
        return ""
    finally:
        vfs.uninstall()


def q4t(m: int, present: bool) -> str:
    """
    post: _ == ""
    """
    return q.run(_q4t, (m, present))


# ---------------------------------------------------------------- Q4b no side effect on rejection
ILL = ["multi", "unres", "cycle2", "self", "cycle3-unreachable", "self+chain", "cycle2+chain"]


def ill_world(kind, be):
    w = World(be)
    w.target("Ok", ["src"], ["ok.out"])
    if kind == "multi":
        w.target("P", ["src"], ["same"])
        w.target("Q", ["src"], ["./same"])
    elif kind == "unres":
        w.target("P", ["missing.txt"], ["p.out"])
    elif kind == "cycle2":
        w.target("P", ["q.out"], ["p.out"])
        w.target("Q", ["p.out"], ["q.out"])
    elif kind in ("self", "self+chain"):
        w.target("P", ["state"], ["./state"])
    elif kind == "cycle2+chain":
        w.target("P", ["q.out"], ["p.out"])
        w.target("Q", ["p.out"], ["q.out"])
    else:
        w.target("X", ["z.out"], ["x.out"])
        w.target("Y", ["x.out"], ["y.out"])
        w.target("Z", ["y.out"], ["z.out"])
    if kind.endswith("+chain"):
        for k in range(4):
            w.target("L%d" % k, ["src" if k == 0 else "l%d" % (k - 1)], ["l%d" % k])
    w.file("src", 5, "S")
    w.file("ok.out", 3, "stale output")
    w.file("p.out", 4, "P")
    w.file("same", 4, "X")
    w.file(".gwf/logs/Gone.stdout", 1, "old log")
    return w


def _q4b(kind, cmd, tracked):
    be = q.SHARD["be"]
    if not (q.in_range(kind, len(ILL)) and q.in_range(cmd, 7)):
        return q.SKIP
    kname = q.pick(ILL, kind)
    tracked = True if tracked else False
    with q.notrace():
        w = ill_world(kname, be)
        if tracked:
            import json as _json
            w.vfs.add(w.tracked_path(), 1, _json.dumps({"Ok": "55" if be != "local" else 55}))
            from vf.world import abst
            abst.add_tracked_job(w, "Ok", "55" if be != "local" else 55, "running")
        w.install()
    try:
        before = w.view()
        raised = None
        try:
            if cmd == 0:
                w.run()
            elif cmd == 1:
                w.run(dry_run=True)
            elif cmd == 2:
                w.status()
            elif cmd == 3:
                w.clean(all_=True, force=True)
            elif cmd == 4:
                w.touch()
            elif cmd == 5:
                w.cancel(force=True)
            else:
                w.info()
        except GWFError as exc:
            raised = type(exc).__name__
        if raised is None:
            return "command %d on an ill-formed workflow (%s) did not fail" % (cmd, ILL[kind])
        want = {"multi": "FileProvidedByMultipleTargetsError", "unres": "UnresolvedInputError"}.get(ILL[kind], "CircularDependencyError")
        if raised != want:
            return "command %d failed with %s, the defect is %s" % (cmd, raised, ILL[kind])
        after = w.view()
        if after != before:
            changed = sorted(set(k for k in set(before) | set(after) if before.get(k) != after.get(k)))
            return "command %d on an ill-formed workflow changed files: %s" % (cmd, changed)
        mut = w.sim.mutating_log() if w.sim else [r for r in w.pool.requests if r.get("__kind__") in ("enqueue_task", "cancel_task")]
        if mut:
            return "command %d on an ill-formed workflow talked to the scheduler: %s" % (cmd, mut[:2])
        return ""
    finally:
        w.uninstall()


def q4b(kind: int, cmd: int, tracked: bool) -> str:
    """
    post: _ == ""
    """
    return q.run(_q4b, (kind, cmd, tracked))


# ---------------------------------------------------------------- Q4c depth
class _RecBackend:
    target_defaults = {}

    def __init__(self):
        self.n = 0

    def status(self, target):
        from gwf.backends.base import BackendStatus
        return BackendStatus.UNKNOWN

    def submit(self, target, dependencies):
        self.n += 1


def chain_run(n, sinks_first):
    """Build a chain of n targets and run everything that walks it."""
    ts = []
    for i in range(n):
        ts.append(Target(name="T%d" % i, inputs=["f%d" % i], outputs=["f%d" % (i + 1)], options={}, working_dir="/vfs/p", spec="x"))
    if sinks_first:
        ts.reverse()
    cache = {"/vfs/p/f0": 1}
    for i in range(1, n + 1):
        cache["/vfs/p/f%d" % i] = None
    fs = CachedFilesystem(cache=cache)
    g = Graph.from_targets({t.name: t for t in ts}, fs)
    ends = g.endpoints()
    get_status_map(g, fs, NoopSpecHashes(), _RecBackend())
    be = _RecBackend()
    submit_workflow(ends, g, fs, NoopSpecHashes(), be)
    if be.n != n:
        return "chain of %d: %d submissions" % (n, be.n)
    for e in ends:
        if len(g.dfs(e)) != n:
            return "dfs visited %d of %d" % (len(g.dfs(e)), n)
    return ""


def _frames():
    f = sys._getframe()
    k = 0
    while f is not None:
        k += 1
        f = f.f_back
    return k


def _q4c(n, sinks_first):
    """The interpreter's recursion budget is scaled down to (current depth + 80) and the chain
    length is symbolic (<= 40): any traversal whose stack grows with the chain length exhausts it
    for some n in the bound.  (At real scale - thousands of targets against the stock limit of 1000 -
    this is checked in the concrete replay.)"""
    if q.excluded("C04-recursion-depth"):
        return q.SKIP
    if not (1 <= n and n <= q.SHARD["maxn"]):
        return q.SKIP
    old = sys.getrecursionlimit()
    try:
        sys.setrecursionlimit(_frames() + 80)
        k = 1
        while k < n:        # realise n by an explicit loop so that building is concrete per path
            k += 1
        try:
            return chain_run(k, sinks_first) or ""
        except RecursionError:
            return "RecursionError on a dependency chain of %d targets with a recursion budget of 80 frames" % k
    finally:
        sys.setrecursionlimit(old)


def q4c(n: int, sinks_first: bool) -> str:
    """
    post: _ == ""
    """
    return q.run(_q4c, (n, sinks_first))


def _w4c(n, sinks_first):
    """Witness at real scale (stock recursion limit)."""
    try:
        return chain_run(n, sinks_first) or ""
    except RecursionError:
        return "RecursionError on a dependency chain of %d targets (stock recursion limit %d)" % (n, sys.getrecursionlimit())


def w4c(n: int, sinks_first: bool) -> str:
    """
    post: _ == ""
    """
    return q.run(_w4c, (n, sinks_first))


def e2e_q4c(shard, args):
    return _w4c(3000, args[1])


def _rows(nf, vals=(0, 1, 2, 3)):
    rows = [[]]
    for _ in range(nf):
        rows = [r + [v] for r in rows for v in vals]
    return rows


QUERIES = [
    {"name": "Q4a", "fn": q4a,
     "shards": {"quick": [{"nt": 3, "nf": 2, "order": [0, 1, 2], "fix_t0": r} for r in _rows(2)] + [{"nt": 3, "nf": 2, "order": [2, 0, 1], "fix_t0": r} for r in _rows(2) if r[0] >= 2]
                         + [{"nt": 2, "nf": 2, "order": [0, 1], "pad": 3}, {"nt": 2, "nf": 2, "order": [1, 0], "pad": -4}],
                "thorough": [{"nt": 3, "nf": 3, "order": [0, 1, 2], "fix_t0": r, "f2max": 3} for r in _rows(3) if r[2] <= 2]
                            + [{"nt": 3, "nf": 3, "order": [2, 1, 0], "fix_t0": r, "f2max": 3} for r in _rows(3) if r[2] <= 2 and r[0] == 3]
                            + [{"nt": 3, "nf": 2, "order": [0, 1, 2], "fix_t0": r, "pad": pd} for r in _rows(2) for pd in (3, -5)]},
     "timeout": {"quick": 600, "thorough": 2400},
     "bound": "role of every (target, file) in {none, input, output, both} and existence of every file symbolic; quick: 3 targets x 2 files, definition order 0,1,2 (all) and 2,0,1 (first target producing/self-looping on file 0); thorough: 3 x 3 (third file never both input and output of one target), definition order 0,1,2 and, for first targets that read and write file 0, 2,1,0; "
              "extra shards put an unrelated healthy chain of 3-5 targets into the same workflow (defined before or after): 2 targets x 2 files (quick), 3 x 2 (thorough)"},
    {"name": "Q4t", "fn": q4t, "shards": [{}], "timeout": 120,
     "bound": "one target, one source file, present with an unbounded symbolic integer modification time (zero, negative, far future) or missing"},
    {"name": "Q4u", "fn": q4u, "shards": [{}], "timeout": 120,
     "bound": "catalogue of %d small workflows: file names that differ only in Unicode normalisation form, letter case or a trailing blank (a byte-exact file system: they are different files); files mentioned twice by one consumer" % len(UNI)},
    {"name": "Q4b", "fn": q4b, "shards": {"quick": [{"be": "slurm"}], "thorough": [{"be": b} for b in ("slurm", "sge", "lsf", "local")]}, "timeout": {"quick": 900, "thorough": 1200},
     "bound": "7 ill-formed workflows (two producers across spellings, missing source, 2-cycle, self-loop, 3-cycle not reachable from the first target, self-loop / 2-cycle beside a healthy chain of 4) next to a healthy target x "
              "{run, run --dry-run, status, clean --all -f, touch, cancel -f, info} x a tracked running job present or not"},
    {"name": "Q4c", "fn": q4c, "e2e": e2e_q4c, "shards": [{"maxn": 40}], "timeout": 900, "skip_if_excluded": "C04-recursion-depth",
     "bound": "chain length 1..40 symbolic, both definition orders, recursion budget scaled to 80 frames; Graph.from_targets, get_status_map, submit_workflow, Graph.dfs"},
    {"name": "W4c", "fn": w4c, "shards": [], "timeout": 60, "bound": "witness of the known finding C04-recursion-depth (concrete)"},
]
