"""C03  Dependency graph is exactly the relation induced by shared file paths."""
import contextlib
import io
import json
import os

from vf import q
from vf.oracles import graph as G
from vf.world import graphworld as GW
from vf.world import vfs
from vf.world.cmds import ROOT, World

from gwf.core import CachedFilesystem, Graph, Target, _norm_path

META = {
    "solver_reasoned": "selectors only (roles, spellings, working directories); the solver's role is the exhaustive enumeration of feasible role matrices.",
    "real": ["gwf.core._norm_path/_norm_paths/_flatten", "gwf.core.Target.flattened_inputs/flattened_outputs/protected", "gwf.core.Graph.from_targets", "gwf.core.Graph.endpoints",
             "gwf.core.Graph.dfs", "gwf.core.check_for_circular_dependencies", "gwf.plugins.info.info/print_json/print_pretty (bodies)"],
    "stubs": ["os.getcwd (selector) for relative working directories", "VFS for file existence", "stdout captured for `gwf info`"],
    "assumptions": ["lexical normalisation on a case-sensitive file system (a symbolic link to a directory appears in Q3l only, where every way of defining a target must resolve the same declared path alike)", "well-formed workflows only (the others are C04)"],
    "outside": ["whether two different spellings that reach one file through a symbolic link are the same file (gwf compares lexically)", "'~', case-insensitive file systems", "spellings outside the generated catalogue (normpath is C code: spellings are selector variables)",
                "more than 3 targets x 3 files (quick: 2 x 3)"],
}

# ---------------------------------------------------------------- Q3a normalisation of spellings
FILES = ["/vfs/p/x", "/vfs/p/d/x", "/vfs/p/y"]


def spellings(canon, wd):
    """Spellings of the canonical file `canon` as seen from working directory `wd` (absolute)."""
    rel = os.path.relpath(canon, wd)
    out = [rel, "./" + rel, canon, os.path.dirname(rel) + "//" + os.path.basename(rel) if os.path.dirname(rel) else "zz/../" + rel,
           "q/../" + rel, rel + "/", canon.replace("/vfs/", "/vfs/./"), "./././" + rel]
    return out


WDS = [("/vfs/p", "/vfs/p", "/anywhere"), ("/vfs/p/d", "/vfs/p/d", "/anywhere"), (".", "/vfs/p", "/vfs/p"), ("d", "/vfs/p/d", "/vfs/p"), ("../p", "/vfs/p", "/vfs/q"), ("", "/vfs/p", "/vfs/p"),
       ("/", "/", "/anywhere"), (".", "/", "/")]


def _q3a(fa, sa, wa, fb, sb, wb, shape):
    nsp = 8
    if not (q.in_range(fa, 3) and q.in_range(fb, 3) and q.in_range(sa, nsp) and q.in_range(sb, nsp) and q.in_range(wa, len(WDS)) and q.in_range(wb, len(WDS)) and q.in_range(shape, 3)):
        return q.SKIP
    if wa != q.SHARD["wa"] or wb != q.SHARD["wb"] or shape != q.SHARD["shape"]:
        return q.SKIP
    wd_a, abs_a, cwd_a = WDS[q.SHARD["wa"]]
    wd_b, abs_b, cwd_b = WDS[q.SHARD["wb"]]
    if cwd_a != "/anywhere" and cwd_b != "/anywhere" and cwd_a != cwd_b:
        return q.SKIP        # both targets are evaluated in one process: one cwd
    cwd = cwd_a if cwd_a != "/anywhere" else cwd_b
    if wd_a == "" or wd_b == "":
        return q.SKIP        # the empty working directory is rejected by validation (C19)
    ca, cb = q.pick(FILES, fa), q.pick(FILES, fb)
    pa = q.pick(spellings(ca, abs_a), sa)
    pb = q.pick(spellings(cb, abs_b), sb)
    real = os.getcwd
    try:
        os.getcwd = lambda: cwd
        A = Target(name="A", inputs=[], outputs=q.pick([[pa], {"k": pa}, [[pa]]], shape), options={}, working_dir=wd_a, protect=[pa])
        B = Target(name="B", inputs=q.pick([pb, [pb], {"k": [pb]}], shape), outputs=[], options={}, working_dir=wd_b)
        oa, ib, prot = A.flattened_outputs(), B.flattened_inputs(), A.protected()
    finally:
        os.getcwd = real
    if len(oa) != 1 or len(ib) != 1:
        return "flattening lost or duplicated a path: %r %r" % (oa, ib)
    if (oa[0] == ib[0]) != (ca == cb):
        return "output %r of A (dir %r) and input %r of B (dir %r): normalised %r / %r, same file: %s" % (pa, wd_a, pb, wd_b, oa[0], ib[0], ca == cb)
    if os.path.normpath(oa[0]) != ca:
        return "output %r in %r normalised to %r, the file is %r" % (pa, wd_a, oa[0], ca)
    if prot != set(oa):
        return "protect spelling %r normalised to %r, output to %r" % (pa, prot, oa)
    return ""


def q3a(fa: int, sa: int, wa: int, fb: int, sb: int, wb: int, shape: int) -> str:
    """
    post: _ == ""
    """
    return q.run(_q3a, (fa, sa, wa, fb, sb, wb, shape))


# ---------------------------------------------------------------- Q3b the relation
def _q3b(r00, r01, r02, r10, r11, r12, r20, r21, r22):
    nt, nf, order = q.SHARD["nt"], q.SHARD["nf"], q.SHARD["order"]
    allr = [[r00, r01, r02], [r10, r11, r12], [r20, r21, r22]]
    fixed = q.SHARD.get("fix_t0")
    roles = []
    for t in range(nt):
        row = []
        for f in range(nf):
            r = allr[t][f]
            if not q.in_range(r, 3):
                return q.SKIP
            if t == 0 and fixed is not None and r != fixed[f]:
                return q.SKIP
            row.append(r)
        roles.append(row)
    for t in range(nt, 3):
        for f in range(3):
            if allr[t][f] != 0:
                return q.SKIP
    for t in range(nt):
        for f in range(nf, 3):
            if allr[t][f] != 0:
                return q.SKIP
    an = G.analyse(nt, nf, roles, [True] * nf)
    if an["multi"] or an["cyclic"]:
        return q.SKIP          # ill-formed: C04
    # concretise the role matrix for building (each value is fixed by the path condition already)
    conc = [[q.pick([0, 1, 2], roles[t][f]) for f in range(nf)] for t in range(nt)]
    world = GW.world_with_files(nf, [True] * nf)
    vfs.install(world)
    try:
        tl, by = GW.make_targets(nt, nf, conc, order)
        g = Graph.from_targets({t.name: t for t in tl}, CachedFilesystem())
        # endpoints first: reading graph.dependents[t] inserts keys into that defaultdict
        ends = sorted(t.name for t in g.endpoints())
        for b in range(nt):
            got = sorted(x.name for x in g.dependencies[by[b]])
            want = sorted("T%d" % a for a in range(nt) if an["dep"][b][a])
            if got != want:
                return "dependencies of T%d: %s, expected %s (roles %s)" % (b, got, want, conc)
            gotd = sorted(x.name for x in g.dependents[by[b]])
            wantd = sorted("T%d" % a for a in range(nt) if an["dep"][a][b])
            if gotd != wantd:
                return "dependents of T%d: %s, expected %s (roles %s)" % (b, gotd, wantd, conc)
        want_ends = sorted("T%d" % a for a in range(nt) if not any(an["dep"][b][a] for b in range(nt)))
        if ends != want_ends:
            return "endpoints %s, expected %s (roles %s)" % (ends, want_ends, conc)
        for f in range(nf):
            prod = an["producers"][f]
            got = g.provides.get(GW.CANON[f])
            if (got.name if got is not None else None) != ("T%d" % prod[0] if prod else None):
                return "provides[%s] = %s, producer is %s" % (GW.CANON[f], got, prod)
        if len(g.provides) != sum(1 for f in range(nf) if an["producers"][f]):
            return "provides has %d entries: %s" % (len(g.provides), sorted(g.provides))
        if sorted(g.unresolved) != sorted(GW.CANON[f] for f in an["unresolved"]):
            return "unresolved %s, expected %s" % (sorted(g.unresolved), [GW.CANON[f] for f in an["unresolved"]])
        # dfs from every target = dependencies first, each once, exactly the cone
        for b in range(nt):
            path = [x.name for x in g.dfs(by[b])]
            cone = set()
            todo = [b]
            while todo:
                i = todo.pop()
                if i not in cone:
                    cone.add(i)
                    todo.extend(a for a in range(nt) if an["dep"][i][a])
            if sorted(path) != sorted("T%d" % i for i in cone):
                return "dfs(T%d) = %s, cone is %s" % (b, path, sorted(cone))
            for pos, nm in enumerate(path):
                i = int(nm[1:])
                for a in range(nt):
                    if an["dep"][i][a] and path.index("T%d" % a) > pos:
                        return "dfs(T%d) = %s lists T%d before its dependency T%d" % (b, path, i, a)
        return ""
    finally:
        vfs.uninstall()


def q3b(r00: int, r01: int, r02: int, r10: int, r11: int, r12: int, r20: int, r21: int, r22: int) -> str:
    """
    post: _ == ""
    """
    return q.run(_q3b, (r00, r01, r02, r10, r11, r12, r20, r21, r22))


# ---------------------------------------------------------------- Q3c gwf info reports the same relations
def _q3c(ab, bc, ac, fmt, sel):
    """Three targets; symbolic edges A->B (ab), B->C (bc), A->C (ac) realised through shared files with
    different spellings; `gwf info` (json / pretty, all / named) must report dependencies and dependents."""
    if not q.in_range(sel, 3):
        return q.SKIP
    with q.notrace():
        w = World("slurm")
    ins_b = ["in0"] + (["a_out"] if ab else [])
    ins_c = ["in0"] + (["./b_out"] if bc else []) + (["sub/../a_out2"] if ac else [])
    w.target("A", ["in0"], ["a_out", "a_out2"])
    w.target("B", ins_b, {"o": "b_out"})
    w.target("C", [ins_c], ["c_out"])
    w.file("in0", 1)
    w.install()
    try:
        names = q.pick([(), ("B",), ("A", "C")], sel)
        buf = io.StringIO()
        with contextlib.redirect_stdout(buf):
            w.info(names, "pretty" if fmt else "json")
        deps = {"A": [], "B": ["A"] if ab else [], "C": (["A"] if ac else []) + (["B"] if bc else [])}
        dependents = {n: sorted(m for m in deps if n in deps[m]) for n in deps}
        shown = names or ("A", "B", "C")
        if not fmt:
            obj = json.loads(buf.getvalue())
            if sorted(obj) != sorted(shown):
                return "info lists %s, requested %s" % (sorted(obj), sorted(shown))
            for n in shown:
                if sorted(obj[n]["dependencies"]) != sorted(deps[n]) or sorted(obj[n]["dependents"]) != dependents[n]:
                    return "info %s: dependencies %s dependents %s, expected %s / %s" % (n, obj[n]["dependencies"], obj[n]["dependents"], deps[n], dependents[n])
        else:
            lines = [str(x) for x in w.out]
            blocks, cur = {}, None
            i = 0
            while i < len(lines):
                if lines[i] == "Name:":
                    cur = lines[i + 1].strip()
                    blocks[cur] = []
                elif cur is not None:
                    blocks[cur].append(lines[i])
                i += 1
            if sorted(blocks) != sorted(shown):
                return "info lists %s, requested %s" % (sorted(blocks), sorted(shown))
            for n in shown:
                b = blocks[n]
                k = b.index("Dependents:")
                k2 = b.index("Spec:")
                got = sorted(x.strip() for x in b[k + 1:k2] if x.strip() != "-")
                if got != dependents[n]:
                    return "info (pretty) %s: dependents %s, expected %s" % (n, got, dependents[n])
        return ""
    finally:
        w.uninstall()


def q3c(ab: bool, bc: bool, ac: bool, fmt: bool, sel: int) -> str:
    """
    post: _ == ""
    """
    return q.run(_q3c, (ab, bc, ac, fmt, sel))


def _t0_rows(nf):
    rows = [[]]
    for _ in range(nf):
        rows = [r + [v] for r in rows for v in (0, 1, 2)]
    return rows


# ---------------------------------------------------------------- Q3l every way of defining a target resolves its paths alike
def _q3l(pk, ck, linked, first):
    """Workflow in /vfs/p; the directory data is a real directory or a symbolic link to /vfs/scratch/d.  A producer
    of data/x.txt and a consumer of data/x.txt, each defined in one of four ways (plain target; template whose
    working directory is data; template in the workflow directory; map over one item with a template in data).
    The same declared file must be one graph key however the two targets were defined."""
    if not (q.in_range(pk, 4) and q.in_range(ck, 4)):
        return q.SKIP
    pk, ck = q.pick([0, 1, 2, 3], pk), q.pick([0, 1, 2, 3], ck)
    linked, first = (True if linked else False), (True if first else False)
    from gwf import AnonymousTarget, Workflow
    w = vfs.VFS()
    w.dirs.update({"/vfs/p", "/vfs/scratch/d"})
    if linked:
        w.links["/vfs/p/data"] = "/vfs/scratch/d"
    else:
        w.dirs.add("/vfs/p/data")
    w.add("/vfs/p/src.txt", 1, "source")
    vfs.install(w)
    try:
        wf = Workflow(working_dir="/vfs/p")

        def define(kind, name, ins_rel, outs_rel):
            """ins_rel / outs_rel are relative to the workflow directory"""
            if kind == 0:
                wf.target(name, inputs=ins_rel, outputs=outs_rel)
                return
            if kind in (1, 3):
                strip = lambda ps: [os.path.relpath(x, "data") if x.startswith("data/") else "../" + x for x in ps]
                tpl = AnonymousTarget(inputs=strip(ins_rel), outputs=strip(outs_rel), options={}, working_dir="data", spec="x")
            else:
                tpl = AnonymousTarget(inputs=ins_rel, outputs=outs_rel, options={}, working_dir=".", spec="x")
            if kind == 3:
                wf.map(lambda item: tpl, ["only"], name=name)
            else:
                wf.target_from_template(name, tpl)

        order = [("Make", pk, ["src.txt"], ["data/x.txt"]), ("Use", ck, ["data/x.txt"], ["use.out"])]
        if not first:
            order.reverse()
        for name, kind, ins, outs in order:
            define(kind, name, ins, outs)
        graph = Graph.from_targets(wf.targets, CachedFilesystem())
        by = {}
        for t in graph.targets.values():
            by["Make" if t.name.startswith("Make") else "Use"] = t
        make, use = by["Make"], by["Use"]
        how = ["plain target", "template in data/", "template in the workflow directory", "map with a template in data/"]
        if make not in graph.dependencies[use] or use not in graph.dependents[make]:
            return "Use (%s) reads data/x.txt and Make (%s) writes it, but the graph has no edge (data is %s): Make provides %s, Use needs %s" % (
                how[ck], how[pk], "a symbolic link" if linked else "a directory", make.flattened_outputs(), use.flattened_inputs())
        if set(graph.endpoints()) != {use}:
            return "endpoints are %s, expected Use only" % sorted(t.name for t in graph.endpoints())
        return ""
    finally:
        vfs.uninstall()


def q3l(pk: int, ck: int, linked: bool, first: bool) -> str:
    """
    post: _ == ""
    """
    return q.run(_q3l, (pk, ck, linked, first))


# ---------------------------------------------------------------- Q3u names that look alike are different files
LOOK = [("caf\u00e9.txt", "cafe\u0301.txt", "composed / decomposed accent"), ("Data.txt", "data.txt", "letter case"), ("x.txt", "x.txt ", "trailing blank"),
        ("\u212b.dat", "\u00c5.dat", "angstrom sign / A with ring"), ("a/b.txt", "a/b.txt", "(control: the same name)")]


def _q3u(k, swap):
    """A writes one name, B reads the other, a source file of that other name exists: B depends on A iff the two
    names are the same string."""
    if not q.in_range(k, len(LOOK)):
        return q.SKIP
    n1, n2, label = q.pick(LOOK, k)
    if swap:
        n1, n2 = n2, n1
    w = vfs.VFS()
    w.dirs.update({"/vfs/p", "/vfs/p/a"})
    w.add("/vfs/p/" + n2, 5, "an existing source file")
    vfs.install(w)
    try:
        A = Target(name="A", inputs=[], outputs=[n1], options={}, working_dir="/vfs/p", spec="x")
        B = Target(name="B", inputs=[n2], outputs=[], options={}, working_dir="/vfs/p", spec="y")
        g = Graph.from_targets({"A": A, "B": B}, CachedFilesystem())
        same = n1 == n2
        if (A in g.dependencies[B]) != same:
            return "%s: A writes %r, B reads %r: edge B->A is %s" % (label, n1, n2, A in g.dependencies[B])
        ends = set(t.name for t in g.endpoints())
        if ends != ({"B"} if same else {"A", "B"}):
            return "%s: endpoints %s" % (label, sorted(ends))
        if A.flattened_outputs() != ["/vfs/p/" + n1] or B.flattened_inputs() != ["/vfs/p/" + n2]:
            return "%s: declared %r / %r, flattened to %r / %r" % (label, n1, n2, A.flattened_outputs(), B.flattened_inputs())
        return ""
    finally:
        vfs.uninstall()


def q3u(k: int, swap: bool) -> str:
    """
    post: _ == ""
    """
    return q.run(_q3u, (k, swap))


# ---------------------------------------------------------------- Q3m the graph is built from what the targets declare when it is built
def _q3m(how, which):
    """A workflow file may fill a target's inputs / outputs after creating it (the collector idiom: `merge.inputs.append(x)` in
    the loop that creates the producers).  The relation is that of the paths declared when the graph is built."""
    if not (q.in_range(how, 4) and q.in_range(which, 2)):
        return q.SKIP
    how, which = q.pick([0, 1, 2, 3], how), q.pick([0, 1], which)
    w = vfs.VFS()
    w.dirs.add("/vfs/p")
    w.add("/vfs/p/src", 5, "source")
    vfs.install(w)
    try:
        A = Target(name="A", inputs=["src"], outputs=([] if which == 1 and how < 2 else ({} if which == 1 and how == 2 else ["a"])), options={}, working_dir="/vfs/p", spec="x")
        B = Target(name="B", inputs=([] if which == 0 and how < 2 else ({} if which == 0 and how == 2 else ["a"])), outputs=["b"], options={}, working_dir="/vfs/p", spec="y")
        t, attr = (B, "inputs") if which == 0 else (A, "outputs")
        if how == 0:
            getattr(t, attr).append("a")                 # in-place append
        elif how == 1:
            getattr(t, attr).extend(["./a"])             # in-place extend, another spelling
        elif how == 2:
            getattr(t, attr)["grp"] = ["a"]              # a named group added later
        else:
            setattr(t, attr, ["a"])                      # plain re-assignment (control)
        g = Graph.from_targets({"A": A, "B": B}, CachedFilesystem())
        if A not in g.dependencies[B] or B not in g.dependents[A]:
            return "B %s 'a' and A %s it (declared by %s), but the graph has no edge: A provides %s, B needs %s" % (
                "reads", "writes", ["append", "extend", "a named group added later", "re-assignment"][how], A.flattened_outputs(), B.flattened_inputs())
        if set(x.name for x in g.endpoints()) != {"B"}:
            return "endpoints %s, expected B only" % sorted(x.name for x in g.endpoints())
        return ""
    finally:
        vfs.uninstall()


def q3m(how: int, which: int) -> str:
    """
    post: _ == ""
    """
    return q.run(_q3m, (how, which))


QUERIES = [
    {"name": "Q3m", "fn": q3m, "shards": [{}], "timeout": 120,
     "bound": "inputs of the consumer or outputs of the producer filled after the target was created: append, extend, a named group added to a dict, re-assignment"},
    {"name": "Q3u", "fn": q3u, "shards": [{}], "timeout": 120,
     "bound": "catalogue of %d pairs of file names that look alike (Unicode normalisation forms, letter case, trailing blank, compatibility characters) and one control pair" % len(LOOK)},
    {"name": "Q3l", "fn": q3l, "shards": [{}], "timeout": 300,
     "bound": "producer and consumer of one file below data/, each defined as plain target / template with working directory data / template in the workflow directory / map with a template; data a directory or a symbolic link to a directory elsewhere; both definition orders"},
    {"name": "Q3a", "fn": q3a,
     "shards": {"quick": [{"wa": a, "wb": b, "shape": (a + b) % 3} for a, b in ((0, 0), (1, 0), (2, 0), (3, 2), (4, 1), (0, 3), (6, 0), (1, 7))],
                "thorough": [{"wa": a, "wb": b, "shape": sh} for a in (0, 1, 2, 3, 4, 6, 7) for b in (0, 1, 2, 3, 4, 6, 7) for sh in range(3) if not (WDS[a][2] != "/anywhere" and WDS[b][2] != "/anywhere" and WDS[a][2] != WDS[b][2])]},
     "timeout": {"quick": 600, "thorough": 900},
     "bound": "3 canonical files x 8 generated spellings (relative, ./, absolute, doubled slash, q/.., trailing slash, /./, ././.) for an output of A and an input of B; working-directory pairs (incl. the file-system root as working directory and as cwd): 8 (quick) / all compatible pairs of 5 incl. relative ones under 2 cwds x 3 container shapes (thorough)"},
    {"name": "Q3b", "fn": q3b,
     "shards": {"quick": [{"nt": 2, "nf": 3, "order": o} for o in GW.perms(2)] + [{"nt": 3, "nf": 2, "order": o} for o in ([0, 1, 2], [2, 1, 0], [1, 2, 0])],
                "thorough": [{"nt": 3, "nf": 3, "order": o, "fix_t0": r} for o in GW.perms(3) for r in _t0_rows(3)]},
     "timeout": {"quick": 900, "thorough": 1200},
     "bound": "role of every (target, file) in {none, input, output} symbolic; quick: 2 targets x 3 files (both orders) and 3 targets x 2 files (3 orders); thorough: 3 x 3, all 6 definition orders; "
              "every target uses its own working directory and its own spelling of every file"},
    {"name": "Q3c", "fn": q3c, "shards": [{}], "timeout": 600, "bound": "3 targets, every subset of the 3 possible edges, json and pretty, all / one / two named targets"},
]
