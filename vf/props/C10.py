"""C10  Job scripts run the spec faithfully with the resolved resource options."""
import json
import logging
import re

from vf import q
from vf.oracles import shell
from vf.world import abst, vfs
from vf.world.cmds import ROOT, World, CAPTURE

from gwf import AnonymousTarget, Workflow
from gwf.backends import lsf as lsf_mod
from gwf.backends import sge as sge_mod
from gwf.backends import slurm as slurm_mod
from gwf.core import Graph, CachedFilesystem, NoopSpecHashes, Target
from gwf.plugins import run as run_mod
from gwf.scheduling import submit_backend

META = {
    "solver_reasoned": 'the spec text (symbolic str, <= 4/6 characters); otherwise selectors (option level choices, directory-name characters, log-name subsets as a symbolic bit mask).',
    "real": ["gwf.workflow.Workflow.target/target_from_template/map", "gwf.utils.chain", "gwf.scheduling.submit_backend", "gwf.backends.slurm.SlurmOps.compile_script/submit_target",
             "gwf.backends.sge.SGEOps.compile_script/submit_target", "gwf.backends.lsf.LSFOps.compile_script/submit_target", "gwf.utils.ensure_trailing_newline",
             "gwf.plugins.logs.logs (body)", "gwf.plugins.run.clean_logs", "gwf.plugins.run.run (body)", "gwf.backends.base.TrackingBackend.submit"],
    "stubs": ["scheduler simulator behind subprocess.Popen (captures the script on stdin)", "VFS for logs", "independent readers: POSIX shell word reader for the cd line "
              "(vf/oracles/shell.py: refuses every expansion/glob/operator), directive reader for #SBATCH / #$ / #BSUB lines"],
    "assumptions": ["bash executes 'set -e' and the spec text as written (what bash does with the spec itself is outside the claim)",
                    "schedulers read one directive per '#SBATCH '/'#$ '/'#BSUB ' line up to the first command"],
    "outside": ["option values outside the catalogue (e.g. text containing '{cores}' for the LSF template, values with newlines)", "spec texts longer than 6 symbolic characters",
                "directory names longer than 3 characters from the metacharacter alphabet", "how the schedulers parse log paths containing blanks in directives"],
}

BES = ["slurm", "sge", "lsf"]
DEFAULTS = {"slurm": slurm_mod.TARGET_DEFAULTS, "sge": sge_mod.TARGET_DEFAULTS, "lsf": lsf_mod.TARGET_DEFAULTS}
# (walltime 0 = "no limit" on Slurm: a value that is false in Python but is not None, so it must reach the script)
LEVEL_VALUES = {"cores": [2, 3, 4], "queue": ["qw", "qt", "qk"], "memory": ["8g", "12g", "16g"], "walltime": ["02:00:00", 0, "04:00:00"], "account": ["aw", "at", "ak"]}
ABSENT, NONE, VALUE = 0, 1, 2


def _backend(be, world):
    if be == "slurm":
        return slurm_mod.create_backend(ROOT)
    if be == "sge":
        return sge_mod.create_backend(ROOT)
    return lsf_mod.create_backend(ROOT)


def _level(opt, choice, level):
    if choice == ABSENT:
        return {}
    if choice == NONE:
        return {opt: None}
    return {opt: LEVEL_VALUES[opt][level]}


def _resolve(be, opt, choices):
    val = DEFAULTS[be].get(opt)
    for level in range(3):
        if choices[level] == NONE:
            val = None
        elif choices[level] == VALUE:
            val = LEVEL_VALUES[opt][level]
    return val


def _expected_text(be, opt, val, cores):
    if be == "sge" and opt == "memory":
        number = int(re.sub(r"[^0-9]+", "", val))
        unit = re.sub(r"[0-9]+", "", val)
        return "%d%s" % (number // cores, unit)
    return str(val)


# ---------------------------------------------------------------- Q10a option precedence
def _q10a(c_wd, c_t, c_kw, u_lvl, other):
    be, opt, mode = q.SHARD["be"], q.SHARD["opt"], q.SHARD["mode"]
    choices = [c_wd, c_t, c_kw]
    for c in choices:
        if not q.in_range(c, 3):
            return q.SKIP
    if not (q.in_range(u_lvl, 4) and q.in_range(other, 3)):
        return q.SKIP
    if mode == "target" and c_t != ABSENT:
        return q.SKIP
    if mode == "target" and u_lvl == 2:
        return q.SKIP
    # a second option varied coarsely at the keyword level (interaction cores <-> memory on SGE)
    opt2 = "cores" if opt != "cores" else "memory"
    lv = [{}, {}, {}]
    for level in range(3):
        lv[level].update(_level(opt, choices[level], level))
    lv[2].update(_level(opt2, other, 2))
    if u_lvl >= 1:
        lv[u_lvl - 1]["frobnicate"] = "7"
    res1 = _resolve(be, opt, choices)
    res2 = _resolve(be, opt2, [ABSENT, ABSENT, other])
    resolved = {opt: res1, opt2: res2}
    if be == "sge" and resolved.get("memory") is not None and resolved.get("cores") is None and q.excluded("C10-sge-memory-without-cores"):
        return q.SKIP
    if be == "lsf" and (res1 is None or res2 is None) and q.excluded("C10-lsf-none-option-placeholder"):
        return q.SKIP
    with q.notrace():
        w = World(be)
        w.install()
    try:
        del CAPTURE.records[:]
        wf = Workflow(working_dir=ROOT, defaults=lv[0])
        if mode == "target":
            t = wf.target("T", inputs=[], outputs=[], **lv[2])
            t.spec = "echo hi"
        else:
            tmpl = AnonymousTarget(inputs=[], outputs=[], options=lv[1], group="g", spec="echo hi")
            t = wf.target_from_template("T", tmpl, **lv[2])
        backend = _backend(be, w)
        submit_backend(t, [], backend, NoopSpecHashes())
        script = w.sim.submitted()[-1].script
        vals = shell.option_values(be, script)
        for name in shell.FLAGS[be]:
            got = vals.get(name, [])
            if len(got) > 1:
                return "option %s given %d times: %s" % (name, len(got), got)
            want = resolved[name] if name in resolved else DEFAULTS[be].get(name)
            if want is None:
                if got:
                    return "option %s resolved to None but the script carries %r" % (name, got)
            else:
                cores = resolved["cores"] if resolved.get("cores") is not None else 1
                text = _expected_text(be, name, want, cores)
                if got != [text]:
                    return "option %s: script carries %r, resolved value renders as %r" % (name, got, text)
        if "frobnicate" in script:
            return "unknown option reached the script"
        if "{" in "\n".join(shell.directives(be, script)):
            return "unsubstituted placeholder in a directive: %r" % [d for d in shell.directives(be, script) if "{" in d]
        if be == "lsf" and resolved.get("memory") is not None:
            rline = [d for d in shell.directives(be, script) if d.startswith("-R ")]
            m = resolved["memory"]
            if rline != ['-R "select[mem>%s] rusage[mem=%s] span[hosts=1]"' % (m, m)]:
                return "LSF -R line %r does not carry the resolved memory %r" % (rline, m)
        if u_lvl >= 1:
            warned = [r for r in CAPTURE.records if r[1] >= logging.WARNING and "frobnicate" in [str(a) for a in (r[3] or ())]]
            if not warned:
                return "unknown option dropped without a warning"
        return ""
    finally:
        w.uninstall()


def q10a(c_wd: int, c_t: int, c_kw: int, u_lvl: int, other: int) -> str:
    """
    post: _ == ""
    """
    return q.run(_q10a, (c_wd, c_t, c_kw, u_lvl, other))


def _stops_at_first_failure(cmds):
    """The commands gwf puts before the spec leave bash's errexit option on (`set -e`, `set -eu`, `set -o errexit`, ...)."""
    on = False
    for c in cmds:
        w = c.split()
        if not w or w[0] != "set":
            continue
        k = 1
        while k < len(w):
            a = w[k]
            if a in ("-o", "+o") and k + 1 < len(w):
                if w[k + 1] == "errexit":
                    on = (a == "-o")
                k += 2
                continue
            if a.startswith("-") and "e" in a[1:] and not a.startswith("--"):
                on = True
            if a.startswith("+") and "e" in a[1:]:
                on = False
            k += 1
    return on


def _preamble_ok(cmds, wd):
    """cd into the working directory first (any correct quoting), then only exports / set; errexit on at the end."""
    if len(cmds) < 2:
        return False
    try:
        first = shell.shell_words(cmds[0])
    except Exception:
        return False          # not a plain command line (expansions, unbalanced quotes): in particular not `cd <directory>`
    if first != ["cd", wd]:
        return False
    for c in cmds[1:]:
        if not (c.startswith("export ") or c.split()[0] == "set"):
            return False
    return _stops_at_first_failure(cmds[1:])


# ---------------------------------------------------------------- Q10b spec verbatim, cd and set -e before it
def _ops(be, log_mode="full"):
    if be == "slurm":
        return slurm_mod.SlurmOps(ROOT, log_mode, True, target_defaults=slurm_mod.TARGET_DEFAULTS)
    if be == "sge":
        return sge_mod.SGEOps(ROOT, target_defaults=sge_mod.TARGET_DEFAULTS)
    return lsf_mod.LSFOps(ROOT, target_defaults=lsf_mod.TARGET_DEFAULTS)


T10B = {}


def _q10b(spec):
    be = q.SHARD["be"]
    if len(spec) > q.SHARD["maxlen"]:
        return q.SKIP
    t = T10B[be]
    t.spec = spec
    t.options = {"cores": 1, "memory": "1g", "queue": "normal"} if be == "lsf" else {"cores": 1, "memory": "1g"}
    script = _ops(be).compile_script(t)
    tail = spec if (len(spec) > 0 and spec[len(spec) - 1] == "\n") else spec + "\n"
    if not script.endswith("\n" + tail):
        return "script does not end with the spec verbatim"
    head = script[:len(script) - len(tail)]
    lines = head.split("\n")
    cmds = [ln for ln in lines if ln != "" and not ln.startswith("#")]
    if not _preamble_ok(cmds, ROOT):
        return "commands before the spec are %r (expected: cd into the working directory, then the option that stops at the first failing command)" % (cmds,)
    return ""


def q10b(spec: str) -> str:
    """
    post: _ == ""
    """
    return q.run(_q10b, (spec,))


SPECS = ["", "echo hi", "echo hi\n", "a\n\nb\n", "echo \"$HOME\" 'x y'\nfalse\necho not reached\n", "echo ${cores} {memory} {queue}\n", "echo {cores}\necho done",
         "python - <<'EOF'\nprint('{queue}')\nEOF\n", "  indented\n\ttabbed\n", "#!/bin/sh\n#SBATCH -c 99\n#BSUB -n 99\n#$ -pe smp 99\necho x\n", "echo {std_out} {job_name} {0}\n", "cd /tmp && set +e\n", "echo 'quote\\''\n",
         "trailing spaces   \n", "\n\n", "echo \u00e9\u4e2d\n"]


def _q10g(k):
    be = q.SHARD["be"]
    if not q.in_range(k, len(SPECS)):
        return q.SKIP
    spec = q.pick(SPECS, k)
    t = T10B[be]
    t.spec = spec
    t.options = {"cores": 1, "memory": "1g", "queue": "normal"} if be == "lsf" else {"cores": 1, "memory": "1g"}
    script = _ops(be).compile_script(t)
    tail = spec if spec.endswith("\n") else spec + "\n"
    if not script.endswith("\n" + tail):
        return "spec %r does not end the %s script verbatim; the script ends %r" % (spec, be, script[-(len(tail) + 30):])
    head = script[:len(script) - len(tail)]
    cmds = [ln for ln in head.split("\n") if ln != "" and not ln.startswith("#")]
    if not _preamble_ok(cmds, ROOT):
        return "commands before the spec are %r (expected: cd into the working directory, then the option that stops at the first failing command)" % (cmds,)
    # directives of the script are gwf's own: the spec's look-alike lines come after the first command
    own = [d for d in shell.directives(be, head)]
    if any("99" in d for d in own):
        return "a directive-looking line of the spec ended up among the directives: %r" % (own,)
    return ""


def q10g(k: int) -> str:
    """
    post: _ == ""
    """
    return q.run(_q10g, (k,))


def setup_q10b(shard):
    for be in BES:
        T10B[be] = Target(name="T", inputs=[], outputs=[], options={}, working_dir=ROOT, spec="")


# ---------------------------------------------------------------- Q10c working directory names
ALPHA = ["a", " ", "'", '"', "$", "\\", ";", "*", "~", "#", "é", "-", "&", "(", "`", "!", "{", "\t"]


def _q10c(n, c0, c1, c2):
    be = q.SHARD["be"]
    if not q.in_range(n, q.SHARD.get("maxn", 3)):
        return q.SKIP
    f0 = q.SHARD.get("first")
    if f0 is not None and c0 != f0:
        return q.SKIP
    cs = [c0, c1, c2]
    for c in cs:
        if not q.in_range(c, len(ALPHA)):
            return q.SKIP
    name = ""
    for i in range(n + 1):
        name = name + q.pick(ALPHA, cs[i])
    wd = "/data/" + name
    try:
        t = Target(name="T", inputs=[], outputs=[], options={}, working_dir=wd, spec="true")
    except Exception:
        return q.SKIP       # not a directory name accepted by target validation
    t.options = {"cores": 1, "memory": "1g", "queue": "normal"} if be == "lsf" else {"cores": 1, "memory": "1g"}
    script = _ops(be).compile_script(t)
    cmds = [ln for ln in script.split("\n") if ln != "" and not ln.startswith("#")]
    if not cmds or not cmds[0].startswith("cd"):
        return "first command is %r" % (cmds[:1],)
    try:
        words = shell.shell_words(cmds[0])
    except shell.NotLiteral as exc:
        return "cd line %r is not a literal command: %s" % (cmds[0], exc)
    if words != ["cd", wd]:
        return "cd line %r reads as %r, working directory is %r" % (cmds[0], words, wd)
    return ""


def q10c(n: int, c0: int, c1: int, c2: int) -> str:
    """
    post: _ == ""
    """
    return q.run(_q10c, (n, c0, c1, c2))


def e2e_q10c(shard, args):
    """End-to-end replay under real bash from a foreign cwd."""
    import os, subprocess, tempfile
    n, cs = args[0], args[1:4]
    name = "".join(ALPHA[c] for c in cs[:n + 1])
    base = tempfile.mkdtemp(prefix="vf10c")
    wd = os.path.join(base, name)
    try:
        os.makedirs(wd, exist_ok=True)
        t = Target(name="T", inputs=[], outputs=[], options={"cores": 1, "memory": "1g"}, working_dir=wd, spec="pwd > " + base + "/where")
        if shard["be"] == "lsf":
            t.options["queue"] = "normal"
        script = _ops(shard["be"]).compile_script(t)
        p = subprocess.run(["bash", "-c", script], cwd="/", capture_output=True, text=True)
        where = open(base + "/where").read().strip() if os.path.exists(base + "/where") else None
        return "real bash: spec ran in %r (working dir %r), stderr=%r" % (where, wd, p.stderr[:200])
    finally:
        import shutil
        shutil.rmtree(base, ignore_errors=True)


def validate_shell_reader():
    """Stub validation: (1) the scripts of the three backends pass `bash -n`; (2) the reference shell word
    reader agrees with real bash on the cd line of every directory name of the catalogue (1-2 characters)."""
    import subprocess
    names = []
    for a in ALPHA:
        names.append(a)
        for b in ALPHA:
            names.append(a + b)
    lines, kept = [], []
    for be in BES:
        t = Target(name="T", inputs=[], outputs=[], options={}, working_dir=ROOT, spec="echo 'a b' \"$HOME\"\nfalse\necho not reached")
        t.options = {"cores": 1, "memory": "1g", "queue": "normal"} if be == "lsf" else {"cores": 1, "memory": "1g"}
        script = _ops(be).compile_script(t)
        p = subprocess.run(["bash", "-n"], input=script, capture_output=True, text=True)
        if p.returncode != 0:
            return "bash -n rejects the %s script: %s" % (be, p.stderr[:200])
    for nm in names:
        wd = "/data/" + nm
        try:
            t = Target(name="T", inputs=[], outputs=[], options={"cores": 1, "memory": "1g"}, working_dir=wd, spec="true")
        except Exception:
            continue
        script = _ops("slurm").compile_script(t)
        cd = [ln for ln in script.split("\n") if ln.startswith("cd ")][0]
        try:
            words = shell.shell_words(cd)
        except shell.NotLiteral as exc:
            return "reference reader refuses gwf's own cd line %r: %s" % (cd, exc)
        kept.append((wd, words))
        lines.append("f " + cd[3:])
    prog = "f() { printf '%s\\0' \"$#\" \"$1\"; }\n" + "\n".join(lines) + "\n"
    p = subprocess.run(["bash", "-c", prog], capture_output=True)
    if p.returncode != 0:
        return "bash failed on the cd lines: %s" % p.stderr[:200]
    parts = p.stdout.decode("utf-8").split("\0")[:-1]
    if len(parts) != 2 * len(kept):
        return "bash produced %d fields for %d cd lines" % (len(parts), len(kept))
    for i, (wd, words) in enumerate(kept):
        if parts[2 * i] != "1" or parts[2 * i + 1] != wd or words != ["cd", wd]:
            return "directory %r: bash reads %s word(s) %r, the reference reader %r" % (wd, parts[2 * i], parts[2 * i + 1], words)
    return ""


# ---------------------------------------------------------------- Q10d log paths = what `gwf logs` opens
TWD = [ROOT, ROOT + "/sub dir", "/vfs/elsewhere/data"]


def _q10d(mode, err, twd):
    be = q.SHARD["be"]
    if not (q.in_range(mode, 3) and q.in_range(twd, len(TWD))):
        return q.SKIP
    target_wd = q.pick(TWD, twd)
    log_mode = q.pick(["full", "merged", "none"], mode) if be == "slurm" else "full"
    if be != "slurm" and mode != 0:
        return q.SKIP
    with q.notrace():
        w = World(be)
        w.install()
    try:
        t = Target(name="My.Target_1", inputs=[], outputs=[], options={}, working_dir=target_wd, spec="true")
        t.options = {"cores": 1, "memory": "1g", "queue": "normal"} if be == "lsf" else {"cores": 1, "memory": "1g"}
        script = _ops(be, log_mode).compile_script(t)
        ds = shell.directives(be, script)
        flag_o = {"slurm": "--output=", "sge": "-o ", "lsf": "-oo "}[be]
        flag_e = {"slurm": "--error=", "sge": "-e ", "lsf": "-eo "}[be]
        outs = [d[len(flag_o):] for d in ds if d.startswith(flag_o)]
        errs = [d[len(flag_e):] for d in ds if d.startswith(flag_e)]
        if len(outs) != 1 or len(errs) > 1:
            return "stdout/stderr directives: %r / %r" % (outs, errs)
        if log_mode == "none":
            if outs != ["/dev/null"] or errs:
                return "log mode none but output goes to %r / %r" % (outs, errs)
            return ""
        if log_mode == "merged" and errs:
            return "log mode merged but a separate stderr file %r is requested" % (errs,)
        if log_mode == "full" and len(errs) != 1:
            return "log mode full without a stderr file"
        # the scheduler writes the job's output where the directive says; `gwf logs` must show it
        w.vfs.add(outs[0], 50, "OUT-OF-LATEST-RUN")
        if errs:
            w.vfs.add(errs[0], 50, "ERR-OF-LATEST-RUN")
        if err and not errs:
            return ""
        shown = w.logs("My.Target_1", stderr=err)
        want = "ERR-OF-LATEST-RUN" if err else "OUT-OF-LATEST-RUN"
        if shown != [want]:
            return "gwf logs shows %r, the job wrote %r to %s" % (shown, want, errs[0] if err else outs[0])
        return ""
    finally:
        w.uninstall()


def q10d(mode: int, err: bool, twd: int) -> str:
    """
    post: _ == ""
    """
    return q.run(_q10d, (mode, err, twd))


# ---------------------------------------------------------------- Q10h the log mode chosen with `gwf config set` shapes the submitted script
def _q10h(mode, via, err):
    """Slurm.  The log mode is chosen the way a user does it (`gwf config set backend.slurm.log_mode <mode>`, via=0) or is
    already in .gwfconf.json (via=1) or is not configured (via=2, mode full); then `gwf run`; the script sbatch received
    carries the directives of that mode, and `gwf logs` shows what the job writes there."""
    if not (q.in_range(mode, 3) and q.in_range(via, 3)):
        return q.SKIP
    log_mode = q.pick(["full", "merged", "none"], mode)
    if via == 2 and mode != 0:
        return q.SKIP
    via = q.pick([0, 1, 2], via)
    err = True if err else False
    with q.notrace():
        w = World("slurm")
        w.target("T.one", [], ["t.out"])
        if via == 1:
            w.vfs.add(ROOT + "/.gwfconf.json", 1, json.dumps({"backend.slurm.log_mode": log_mode}))
        w.install()
    try:
        if via == 0:
            w.config_set("backend.slurm.log_mode", log_mode)
        w.run()
        jobs = w.sim.submitted()
        if len(jobs) != 1:
            return "run submitted %d jobs" % len(jobs)
        ds = shell.directives("slurm", jobs[0].script)
        outs = [d[len("--output="):] for d in ds if d.startswith("--output=")]
        errs = [d[len("--error="):] for d in ds if d.startswith("--error=")]
        how = ["config set", "configuration file", "default"][via]
        if log_mode == "none":
            if outs != ["/dev/null"] or errs:
                return "log mode none (%s): the submitted script sends output to %r / %r" % (how, outs, errs)
            return ""
        if len(outs) != 1 or (log_mode == "merged" and errs) or (log_mode == "full" and len(errs) != 1):
            return "log mode %s (%s): stdout/stderr directives %r / %r" % (log_mode, how, outs, errs)
        w.vfs.add(outs[0], 50, "OUT-OF-LATEST-RUN")
        if errs:
            w.vfs.add(errs[0], 50, "ERR-OF-LATEST-RUN")
        if err and not errs:
            return ""
        shown = w.logs("T.one", stderr=err)
        want = "ERR-OF-LATEST-RUN" if err else "OUT-OF-LATEST-RUN"
        if shown != [want]:
            return "log mode %s (%s): gwf logs shows %r, the job wrote %r" % (log_mode, how, shown, want)
        return ""
    finally:
        w.uninstall()


def q10h(mode: int, via: int, err: bool) -> str:
    """
    post: _ == ""
    """
    return q.run(_q10h, (mode, via, err))


# ---------------------------------------------------------------- Q10e clean_logs
LOGNAMES = ["A", "A.x", "old", "old.x", "B", "A_x"]
TARGETSETS = [["A", "B"], ["A.x", "B"], ["old.x"], ["A", "A.x", "A_x", "B"]]


def _q10e(present, tset, setting, dry):
    """present: bitmask over LOGNAMES x {.stdout,.stderr} (12 bits) + .sh file for 'old'."""
    nlogs = q.SHARD.get("nlogs", 6)
    if not q.in_range(present, 1 << nlogs):
        return q.SKIP
    if tset != q.SHARD["tset"]:
        return q.SKIP
    names = TARGETSETS[q.SHARD["tset"]]
    with q.notrace():
        w = World("slurm", user_config={"clean_logs": True})
    for nm in names:
        w.target(nm, [], [nm + ".out"])
    logs = []
    for k, ln in enumerate(LOGNAMES):
        if (present >> k) & 1:
            for ext in (".stdout", ".stderr"):
                w.vfs.add(ROOT + "/.gwf/logs/" + ln + ext, 3, "log of " + ln)
                logs.append(ln + ext)
    w.vfs.add(ROOT + "/.gwf/logs/old.sh", 3, "#!/bin/bash")
    w.user_config["clean_logs"] = setting
    w.install()
    try:
        before = set(p for p in w.vfs.files if p.startswith(ROOT + "/.gwf/logs/"))
        w.run(dry_run=dry)
        after = set(p for p in w.vfs.files if p.startswith(ROOT + "/.gwf/logs/"))
        removed = before - after
        if (not setting or dry) and removed:
            return "log cleaning %s, dry_run=%s, but %s removed" % ("on" if setting else "off", dry, sorted(removed))
        for p in removed:
            base = p[len(ROOT + "/.gwf/logs/"):]
            stem = base[:base.rfind(".")]
            if stem in names:
                return "log %s of target %s, which is part of the workflow, was deleted" % (base, stem)
        return ""
    finally:
        w.uninstall()


def q10e(present: int, tset: int, setting: bool, dry: bool) -> str:
    """
    post: _ == ""
    """
    return q.run(_q10e, (present, tset, setting, dry))


QUERIES = [
    {"name": "V10-shell", "fn": validate_shell_reader, "concrete": True, "shards": [{}], "timeout": 120,
     "bound": "stub validation (concrete, real bash): `bash -n` on the scripts of the three backends; reference shell word reader == real bash on the cd line of every accepted directory name of 1-2 catalogue characters"},
    {"name": "Q10a", "fn": q10a,
     "shards": {"quick": [{"be": b, "opt": o, "mode": m} for b in BES for o, m in (("cores", "template"), ("queue", "template"), ("memory", "target"))] + [{"be": "slurm", "opt": "walltime", "mode": "template"}],
                "thorough": [{"be": b, "opt": o, "mode": m} for b in BES for o in ("cores", "queue", "memory") for m in ("target", "template")]
                            + [{"be": b, "opt": o, "mode": "template"} for b in ("slurm", "sge") for o in ("walltime", "account")]},
     "timeout": {"quick": 600, "thorough": 1500},
     "bound": "one option varied over {absent, None, value} at each of workflow default / template / keyword (27 combinations), a second option over the same at keyword level, "
              "one unknown option at each level or nowhere; values from LEVEL_VALUES; per backend"},
    {"name": "Q10b", "fn": q10b, "setup": setup_q10b, "shards": {"quick": [{"be": b, "maxlen": 4} for b in BES], "thorough": [{"be": b, "maxlen": 6} for b in BES]},
     "timeout": {"quick": 300, "thorough": 1200}, "bound": "spec = symbolic str of length <= 4 (quick) / <= 6 (thorough), any characters"},
    {"name": "Q10g", "fn": q10g, "setup": setup_q10b, "shards": [{"be": b} for b in BES], "timeout": 300,
     "bound": "spec catalogue of %d texts (empty, with/without trailing newline, blank lines, quotes and $, a failing command in the middle, here-documents, lines containing {cores}/{memory}/{queue}/{std_out}/{0}, "
              "lines that look like scheduler directives, non-ASCII): the script ends with the spec verbatim after cd and set -e" % len(SPECS)},
    {"name": "Q10c", "fn": q10c, "e2e": e2e_q10c,
     "shards": {"quick": [{"be": b, "maxn": 2} for b in BES], "thorough": [{"be": b, "maxn": 3, "first": f} for b in BES for f in range(len(ALPHA)) if ALPHA[f] != "\t"]},
     "timeout": {"quick": 400, "thorough": 600},
     "bound": "directory name of 1..2 (quick) / 1..3 (thorough) characters over the alphabet %r (those accepted by target validation)" % (ALPHA,)},
    {"name": "Q10d", "fn": q10d, "shards": [{"be": b} for b in BES], "timeout": 300,
     "bound": "log modes full/merged/none (Slurm), full (SGE, LSF); stdout and stderr; target name with dot and underscore; target working directory = project directory, a sub-directory with a blank, or a directory outside the project"},
    {"name": "Q10h", "fn": q10h, "shards": [{}], "timeout": 300,
     "bound": "Slurm log mode full/merged/none chosen with the real `gwf config set`, present in the configuration file, or left at its default; `gwf run` of one target; directives of the script sbatch received; `gwf logs`"},
    {"name": "Q10e", "fn": q10e, "shards": {"quick": [{"tset": k, "nlogs": 5} for k in range(len(TARGETSETS))], "thorough": [{"tset": k, "nlogs": 6} for k in range(len(TARGETSETS))]},
     "timeout": {"quick": 600, "thorough": 1800},
     "bound": "any subset of 5 (quick) / 6 (thorough) log base names (each with .stdout and .stderr) incl. dotted names that are prefixes of each other, 4 target sets, setting on/off, dry-run on/off"},
]


# ---------------------------------------------------------------- Q10f several targets in one run: options do not leak between submissions
OPTSETS = [("none", {}), ("queue+account", {"queue": "short", "account": "proj42"}), ("cores", {"cores": 8}), ("queue None", {"queue": None}), ("unknown", {"frobnicate": 1}), ("memory", {"memory": "12g"})]


def _q10f(o1, o2, o3, dep):
    """Three targets submitted by one `gwf run` (name order X1, X2, X3; X2 optionally depends on X1): every
    script carries exactly the directives its own target's options resolve to."""
    be = q.SHARD["be"]
    if not (q.in_range(o1, len(OPTSETS)) and q.in_range(o2, len(OPTSETS)) and q.in_range(o3, len(OPTSETS))):
        return q.SKIP
    if "o1" in q.SHARD and o1 != q.SHARD["o1"]:
        return q.SKIP
    sets = [q.pick(OPTSETS, o1), q.pick(OPTSETS, o2), q.pick(OPTSETS, o3)]
    dep = True if dep else False
    with q.notrace():
        w = World(be)
        w.file("src", 5)
        w.target("X1", ["src"], ["x1"], **sets[0][1])
        w.target("X2", ["x1"] if dep else ["src"], ["x2"], **sets[1][1])
        w.target("X3", ["src"], ["x3"], **sets[2][1])
        w.install()
    try:
        w.run()
        jobs = {j.name: j for j in w.sim.submitted()}
        if sorted(jobs) != ["X1", "X2", "X3"]:
            return "submitted %s" % sorted(jobs)
        for k, nm in enumerate(("X1", "X2", "X3")):
            label, opts = sets[k]
            vals = shell.option_values(be, jobs[nm].script)
            for name in shell.FLAGS[be]:
                want = opts[name] if name in opts else DEFAULTS[be].get(name)
                got = vals.get(name, [])
                if want is None:
                    if got:
                        return "%s (%s): option %s resolved to None but its script carries %r (other targets: %s)" % (nm, label, name, got, [s[0] for s in sets])
                else:
                    cores = opts.get("cores", DEFAULTS[be].get("cores", 1)) or 1
                    text = _expected_text(be, name, want, cores)
                    if got != [text]:
                        return "%s (%s): option %s: script carries %r, expected %r (other targets in this run: %s)" % (nm, label, name, got, text, [s[0] for s in sets])
            if "frobnicate" in jobs[nm].script:
                return "%s: unknown option reached the script" % nm
        return ""
    finally:
        w.uninstall()


def q10f(o1: int, o2: int, o3: int, dep: bool) -> str:
    """
    post: _ == ""
    """
    return q.run(_q10f, (o1, o2, o3, dep))


QUERIES.append(
    {"name": "Q10f", "fn": q10f,
     "shards": {"quick": [{"be": "slurm", "o1": k} for k in range(len(OPTSETS))] + [{"be": "sge", "o1": 0}, {"be": "sge", "o1": 3}, {"be": "lsf", "o1": 0}],
                "thorough": [{"be": b, "o1": k} for b in BES for k in range(len(OPTSETS))]},
     "timeout": {"quick": 900, "thorough": 1800},
     "bound": "three targets submitted by one `gwf run`, each with one of the option sets %s (symbolic), the second optionally depending on the first: every script carries its own target's resolved directives "
              "(options of one submission must not influence another)" % ([s[0] for s in OPTSETS],)})
