"""C18  Spec hashes are recorded exactly on accepted submission, touch and clean."""
import json

import click

from vf import q
from vf.oracles import plan as P
from vf.world import abst
from vf.world.cmds import ROOT
from vf.world.proj import Project

from gwf.core import hash_spec

META = {
    "solver_reasoned": 'selectors (record situations, step kinds, rejected-submission index).',
    "real": ["gwf.core.FileSpecHashes.__init__/has_changed/update/invalidate/close", "gwf.core.NoopSpecHashes", "gwf.core.get_spec_hashes", "gwf.core.hash_spec", "gwf.scheduling.submit_backend/should_run/schedule",
             "gwf.plugins.{run,status,touch,clean}.* (bodies)", "gwf.conf.FileConfig (use_spec_hashes)", "gwf.backends.slurm + TrackingBackend (acceptance / rejection of submissions)"],
    "stubs": ["VFS", "scheduler simulator with a fault at the k-th sbatch (rejected submission)", "workflow loading; a spec edit = the Target's spec text changed between invocations"],
    "assumptions": ["sha1 is collision free on the spec texts used", "one gwf process at a time"],
    "outside": ["more than 2-3 targets", "histories longer than 3 (quick: 2) steps"],
}

RECS = ["absent", "current", "other"]
STEPS = ["run", "dry-run", "status", "touch", "clean", "clean-none", "touch-none", "run-A", "touch-A", "clean-A"]


class Model:
    """The reference model of appendix C."""

    def __init__(self, names, specs, enabled, rec):
        self.names = names
        self.specs = dict(specs)
        self.enabled = enabled
        self.rec = dict(rec)

    def h(self, nm):
        return hash_spec(self.specs[nm])

    def stale_by_spec(self, nm):
        return self.enabled and self.rec.get(nm) != self.h(nm)


def _apply_enabled(pr, enabled):
    pr.w.vfs.add(ROOT + "/.gwfconf.json", 1, json.dumps({"use_spec_hashes": True} if enabled else {}))


def _q18(ra, rb, enabled, step, ea, eb, reject):
    """One inductive step: arbitrary record map over {A, B} (+ a record of a removed target), hashing
    on or off, files present or not; one command; the record file afterwards = model."""
    sh = q.SHARD
    if not (q.in_range(ra, 3) and q.in_range(rb, 3) and q.in_range(step, 10) and q.in_range(reject, 3)):
        return q.SKIP
    if "step" in sh and step != sh["step"]:
        return q.SKIP
    if step != 0 and reject != 0:
        return q.SKIP
    enabled, ea, eb = (True if enabled else False), (True if ea else False), (True if eb else False)
    ra, rb, st, rj = q.pick([0, 1, 2], ra), q.pick([0, 1, 2], rb), q.pick(list(range(10)), step), q.pick([0, 1, 2], reject)
    with q.notrace():
        pr = Project("chain2", sh.get("be", "slurm"))
        if sh.get("protect_a"):
            pr.targets["A"].protect = set(pr.targets["A"].flattened_outputs())      # nothing of A can be removed; cleaning A still forgets its record
        pr.add_sources(5)
        w = pr.w
        if ea:
            w.file("a", 6, "A")
        if eb:
            w.file("b", 7, "B")
        rec = {"Gone": "9" * 40}
        for nm, r in (("A", ra), ("B", rb)):
            if r == 1:
                rec[nm] = pr.current_hash(nm)
            elif r == 2:
                rec[nm] = "0" * 40
        had_file = not (ra == 0 and rb == 0 and not ea)      # also cover "no hash file yet"
        if had_file:
            pr.write_hashes(rec)
        else:
            rec = {}
        _apply_enabled(pr, enabled)
        live = bool(sh.get("live"))
        if live:
            # both targets still have a queued job from an earlier invocation: this invocation asks no target for its hash
            pr.add_tracked("A", "101", "pending")
            pr.add_tracked("B", "102", "pending")
            pr.write_tracked()
        if rj:
            w.sim.fault_only = ({"slurm": "sbatch", "sge": "qsub", "lsf": "bsub"}[sh.get("be", "slurm")],)
            w.sim.fault_at = rj
            w.sim.fault_kind = 0
        w.install()
    try:
        m = Model(pr.names, {nm: pr.targets[nm].spec for nm in pr.names}, enabled, rec)
        # what the file decision says now (for staleness and for what a run submits)
        stale = [pr.stale_by_files(i) or m.stale_by_spec(pr.names[i]) for i in range(pr.n)]
        cone, stt, pre, sub = P.plan(pr.n, pr.deps, stale, [1, 1] if live else [0, 0], P.endpoints(pr.n, pr.deps))
        step_name = STEPS[st]
        n0 = len(abst.jobs_by_cmd(w))
        if step_name == "status":
            table = w.status_table()
            want = {pr.names[i]: stt[i].lower() for i in cone}
            if table != want:
                return "hashing %s, records A:%s B:%s: status shows %s, expected %s" % (enabled, RECS[ra], RECS[rb], table, want)
        elif step_name == "dry-run":
            w.clear_records()
            w.run(dry_run=True)
            would = sorted(w.would_submit())
            want_w = sorted(pr.names[i] for i in sub)
            if would != want_w:
                return "hashing %s, records A:%s B:%s, files a:%s b:%s: the dry run announces %s, the records and files call for %s" % (enabled, RECS[ra], RECS[rb], ea, eb, would, want_w)
        elif step_name == "run":
            try:
                w.run()
            except Exception:
                pass
            accepted = [j["name"] for j in abst.jobs_by_cmd(w)[n0:]]
            if rj == 0 and sorted(accepted) != sorted(pr.names[i] for i in sub):
                return "hashing %s, records A:%s B:%s, files a:%s b:%s: run submitted %s, expected %s" % (enabled, RECS[ra], RECS[rb], ea, eb, accepted, [pr.names[i] for i in sub])
            if enabled:
                for nm in accepted:
                    m.rec[nm] = m.h(nm)
        elif step_name == "touch":
            w.touch(())
            if enabled:
                for nm in pr.names:
                    m.rec[nm] = m.h(nm)
        elif step_name == "clean":
            w.clean((), True, True)
            if enabled:
                for nm in pr.names:
                    m.rec.pop(nm, None)
        elif step_name == "run-A":
            # a run restricted to A: B is outside the cone, its record must survive
            try:
                w.run(("A",))
            except Exception:
                pass
            accepted = [j["name"] for j in abst.jobs_by_cmd(w)[n0:]]
            want_a = ["A"] if (not live and stale[0]) else []
            if accepted != want_a:
                return "hashing %s, records A:%s B:%s, files a:%s b:%s: run A submitted %s, expected %s" % (enabled, RECS[ra], RECS[rb], ea, eb, accepted, want_a)
            if enabled:
                for nm in accepted:
                    m.rec[nm] = m.h(nm)
        elif step_name == "touch-A":
            w.touch(("A",))
            if enabled:
                m.rec["A"] = m.h("A")
        elif step_name == "clean-A":
            w.clean(("A",), True, True)
            if enabled:
                m.rec.pop("A", None)
        elif step_name == "clean-none":
            w.clean(("Zzz*",), True, True)          # a selection that matches no target
        elif step_name == "touch-none":
            try:
                w.touch(("Zzz*",))
            except Exception:
                pass
        got = pr.read_json(w.hashes_path())
        if got != m.rec:
            return "step %s with hashing %s (records before A:%s B:%s, rejected submission #%d): records afterwards %s, expected %s" % (step_name, enabled, RECS[ra], RECS[rb], rj, got, m.rec)
        if not enabled and not had_file and w.hashes_path() in w.vfs.files:
            return "hashing is disabled but a hash file was created"
        return ""
    finally:
        w.uninstall()


def q18(ra: int, rb: int, enabled: bool, step: int, ea: bool, eb: bool, reject: int) -> str:
    """
    post: _ == ""
    """
    return q.run(_q18, (ra, rb, enabled, step, ea, eb, reject))


# ---------------------------------------------------------------- histories
HSTEPS = ["run+drain", "dry-run", "status", "touch", "clean", "edit-A", "edit-B", "toggle", "run-rejecting-first"]


def _q18h(s0, s1, s2, s3, start_enabled):
    sh = q.SHARD
    n = sh["len"]
    steps = [s0, s1, s2, s3][:n]
    for s in [s0, s1, s2, s3][n:]:
        if s != 0:
            return q.SKIP
    if "s1" in sh and s1 != sh["s1"]:
        return q.SKIP
    for s in steps:
        if not q.in_range(s, len(HSTEPS)):
            return q.SKIP
    if "s0" in sh and s0 != sh["s0"]:
        return q.SKIP
    start_enabled = True if start_enabled else False
    seq = [q.pick(HSTEPS, s) for s in steps]
    with q.notrace():
        pr = Project("chain2", "slurm")
        pr.add_sources(5)
        w = pr.w
        _apply_enabled(pr, start_enabled)
        w.vfs.clock = 100
        w.install()
    try:
        m = Model(pr.names, {nm: pr.targets[nm].spec for nm in pr.names}, start_enabled, {})
        edits = {"A": 0, "B": 0}
        for k, stp in enumerate(seq):
            # expected staleness right now
            stale = [pr.stale_by_files(i) or m.stale_by_spec(pr.names[i]) for i in range(pr.n)]
            bstate = []
            for nm in pr.names:
                bstate.append(P.B_UNKNOWN)
            cone, stt, pre, sub = P.plan(pr.n, pr.deps, stale, bstate, P.endpoints(pr.n, pr.deps))
            if stp == "status":
                table = w.status_table()
                want = {pr.names[i]: stt[i].lower() for i in cone}
                if table != want:
                    return "history %s: status at step %d shows %s, expected %s (records %s, hashing %s)" % (seq, k, table, want, m.rec, m.enabled)
            elif stp == "dry-run":
                w.run(dry_run=True)
            elif stp in ("run+drain", "run-rejecting-first"):
                n0 = len(abst.jobs_by_cmd(w))
                if stp == "run-rejecting-first":
                    w.sim.fault_only = ("sbatch",)
                    w.sim.ncmd = 0
                    w.sim.fault_at = 1
                    w.sim.fault_kind = 0
                try:
                    w.run()
                except Exception:
                    pass
                w.sim.fault_at = None
                new = abst.jobs_by_cmd(w)[n0:]
                want_names = sorted(pr.names[i] for i in sub)
                if stp == "run+drain" and sorted(j["name"] for j in new) != want_names:
                    return "history %s: run at step %d submitted %s, expected %s (records %s, hashing %s)" % (seq, k, [j["name"] for j in new], want_names, m.rec, m.enabled)
                for j in new:
                    if m.enabled:
                        m.rec[j["name"]] = m.h(j["name"])
                    # the scheduler runs the accepted job successfully, in dependency order
                    w.vfs.clock += 10
                    for o in pr.outputs[pr.idx(j["name"])]:
                        w.file(o, w.vfs.clock, "made")
                    abst.set_state(w, j["id"], "done")
                # forget finished jobs (as after a scheduler purge) so that the file decision applies
                w.vfs.files.pop(w.tracked_path(), None)
            elif stp == "touch":
                w.vfs.clock += 10
                w.touch(())
                if m.enabled:
                    for nm in pr.names:
                        m.rec[nm] = m.h(nm)
            elif stp == "clean":
                w.clean((), True, True)
                if m.enabled:
                    for nm in pr.names:
                        m.rec.pop(nm, None)
            elif stp in ("edit-A", "edit-B"):
                nm = stp[-1]
                edits[nm] += 1
                pr.targets[nm].spec = "make %s  # edit %d" % (nm, edits[nm])
                m.specs[nm] = pr.targets[nm].spec
            elif stp == "toggle":
                m.enabled = not m.enabled
                # through the real `gwf config set` (the way a user switches it), alternating the accepted spellings
                word = ("yes" if k % 2 else "true") if m.enabled else ("no" if k % 2 else "false")
                w.config_set("use_spec_hashes", word)
            got = pr.read_json(w.hashes_path())
            if got != m.rec:
                return "history %s: after step %d (%s) the records are %s, expected %s" % (seq, k, stp, got, m.rec)
        # final: staleness follows the records
        stale = [pr.stale_by_files(i) or m.stale_by_spec(pr.names[i]) for i in range(pr.n)]
        cone, stt, pre, sub = P.plan(pr.n, pr.deps, stale, [0, 0], P.endpoints(pr.n, pr.deps))
        table = w.status_table()
        want = {pr.names[i]: stt[i].lower() for i in cone}
        if table != want:
            return "history %s: final status %s, expected %s (records %s, hashing %s)" % (seq, table, want, m.rec, m.enabled)
        return ""
    finally:
        w.uninstall()


def q18h(s0: int, s1: int, s2: int, s3: int, start_enabled: bool) -> str:
    """
    post: _ == ""
    """
    return q.run(_q18h, (s0, s1, s2, s3, start_enabled))


QUERIES = [
    {"name": "Q18", "fn": q18, "shards": [{"step": k} for k in range(10)] + [{"step": k, "live": 1} for k in (0, 1, 2, 4)] + [{"step": 0, "be": b} for b in ("sge", "lsf")] + [{"step": k, "protect_a": 1} for k in (4, 9)], "timeout": {"quick": 1500, "thorough": 3000},
     "bound": "one step from an arbitrary state: record of A and of B each absent / current / outdated (+ a record of a removed target, or no hash file at all), hashing on/off, outputs present or not; "
              "step in {run (with the 1st or 2nd sbatch rejected, or none), run --dry-run, status, touch, clean --all -f, clean / touch with a pattern matching nothing, run / touch / clean --all restricted to the first target}; "
              "extra shards: both targets still have a queued job from an earlier invocation (no target is asked for its hash); chain of 2 on Slurm (the run step also on SGE and LSF; the clean steps also with every output of the first target protected)"},
    {"name": "Q18h", "fn": q18h,
     "shards": {"quick": [{"len": 2, "s0": k} for k in range(len(HSTEPS))], "thorough": [{"len": 3, "s0": k} for k in range(len(HSTEPS))] + [{"len": 4, "s0": a, "s1": b} for a in (0, 3, 5, 7, 8) for b in range(len(HSTEPS))]},
     "timeout": {"quick": 1500, "thorough": 3600},
     "bound": "histories of 2 (quick) / 3 and - for 5 first steps - 4 (thorough) steps over %s from a fresh project with hashing initially on or off; after every step the record file equals the reference model, and status follows the records" % (HSTEPS,)},
]
