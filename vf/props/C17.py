"""C17  cancel hits exactly the selected targets' jobs; one failure stops nothing else."""
import fnmatch
import json

import click

from vf import q
from vf.oracles import plan as P
from vf.world import abst
from vf.world.cmds import ROOT
from vf.world.proj import Project

META = {
    "solver_reasoned": 'selectors (job states, selection, failing-command position) and booleans.',
    "real": ["gwf.plugins.cancel.cancel (body)", "gwf.plugins.cancel.cancel_many", "gwf.backends.base.TrackingBackend.cancel/status/__init__/close", "gwf.backends.slurm.SlurmOps.cancel_job", "gwf.backends.sge.SGEOps.cancel_job",
             "gwf.backends.lsf.LSFOps.cancel_job", "gwf.backends.local.LocalOps.cancel_job/Client.cancel", "gwf.backends.utils.call", "gwf.filtering.filter_names",
             "gwf.plugins.status.status and gwf.plugins.run.run (bodies) for the follow-up"],
    "stubs": ["scheduler simulators (scancel reports failure only on stderr with exit 0, qdel/bkill with a non-zero exit) / pool model; a fault can be injected at the k-th cancel command", "VFS", "click.confirm scripted"],
    "assumptions": ["the scheduler carries out the cancellations it acknowledged"],
    "outside": ["more than 3 targets", "selections outside the pattern catalogue"],
}

PATS = [(), ("B",), ("A", "C"), ("*",), ("X*",), ("A.x",), ("A.*",), ("A?x", "Ax*")]      # the last three are meant for the shape with dotted names
ST = ["none", "pending", "running", "done", "held"]      # held: still at the scheduler, in a state gwf cannot name (SGE Eqw, LSF UNKWN)
CANCEL_EXE = {"slurm": "scancel", "sge": "qdel", "lsf": "bkill"}


def _q17(ja, jb, jc, pi, force, answer, k):
    sh = q.SHARD
    be = sh["be"]
    if not (q.in_range(ja, 5) and q.in_range(jb, 4) and q.in_range(jc, 4) and q.in_range(pi, len(PATS)) and q.in_range(k, 4)):
        return q.SKIP
    if (ja == 4) != bool(sh.get("held")):
        return q.SKIP        # the first target's job is held in the held shards (SGE, LSF) and only there
    if "pi" in sh and pi != sh["pi"]:
        return q.SKIP
    if "k" in sh and k != sh["k"]:
        return q.SKIP
    if be == "local" and k != 0:
        return q.SKIP
    nst = sh.get("nstates", 4)
    if (ja >= nst and ja != 4) or jb >= nst or jc >= nst:
        return q.SKIP
    if sh["pi"] != 0 and (force or answer):
        return q.SKIP        # with named targets there is no prompt: force/answer are irrelevant
    force, answer = (True if force else False), (True if answer else False)
    js = [q.pick([0, 1, 2, 3, 4], ja), q.pick([0, 1, 2, 3], jb), q.pick([0, 1, 2, 3], jc)]
    pats = q.pick(PATS, pi)
    kk = q.pick([0, 1, 2, 3], k)
    with q.notrace():
        pr = Project(sh.get("shape", "chain3"), be)
        pr.add_sources(5)
        w = pr.w
        ids = {}
        for nm, j, jid in zip(pr.names, js, ("21", "22", "23")):
            if ST[j] != "none":
                pr.add_tracked(nm, jid, "pending" if ST[j] == "held" else ST[j])
                ids[nm] = pr.tracked[nm]
                if ST[j] == "held":
                    w.sim.jobs[str(jid)].state = {"sge": "Eqw", "lsf": "UNKWN"}[be]
        # a job of an untracked, unrelated user
        if w.sim is not None:
            w.sim.foreign = [("2", "R")]
        pr.write_tracked()
        if w.sim is not None and kk:
            w.sim.fault_only = (CANCEL_EXE[be],)
            w.sim.fault_at = kk
            w.sim.fault_kind = 1 if be == "slurm" else 0
        w.confirm_answer = answer
        w.install()
    try:
        aborted = False
        try:
            w.cancel(pats, force)
        except click.Abort:
            aborted = True
        prompted = (not pats) and (not force)
        cancels = []
        if w.sim is not None:
            cancels = [a[-1] for e, a, i in w.sim.log if e == CANCEL_EXE[be]]
        else:
            cancels = [r["tid"] for r in w.pool.requests if r.get("__kind__") == "cancel_task"]
        if aborted != (prompted and not answer):
            return "aborted=%s, prompted=%s, answer=%s" % (aborted, prompted, answer)
        if aborted:
            if cancels:
                return "the prompt was declined but cancel commands were issued: %s" % cancels
            return ""
        sel = [nm for nm in pr.names if (not pats) or any(fnmatch.fnmatchcase(nm, p) for p in pats)]
        want = sorted(str(ids[nm]) for nm in sel if nm in ids)
        if sorted(map(str, cancels)) != want:
            return "cancel %s (job states %s, %d-th cancel command failing): cancel commands for %s, expected exactly %s" % (pats, [ST[j] for j in js], kk, sorted(map(str, cancels)), want)
        # every target that could not be cancelled is reported
        lines = w.reported_lines()
        for nm in sel:
            # reported = some echoed line other than the "Cancelling target <name>" announcement names it (wording is free)
            if nm not in ids and not any((nm in ln.split() or (" " + nm + " ") in (" " + ln + " ")) and not ln.startswith("Cancelling target") for ln in lines):
                return "never-submitted target %s was not reported (output: %s)" % (nm, lines[:6])
        # once the scheduler has carried out the cancellations, none of them is shown submitted/running
        if w.sim is not None:
            w.sim.fault_at = None
        failed_cmd = None
        if kk and w.sim is not None and len(cancels) >= kk:
            failed_cmd = str(cancels[kk - 1])
            # a scheduler error is reported for that target (any line other than the announcement that names it)
            for nm in sel:
                if nm in ids and str(ids[nm]) == failed_cmd:
                    if not any((nm in ln.split() or (" " + nm + " ") in (" " + ln + " ")) and not ln.startswith("Cancelling target") for ln in lines):
                        return "the cancel command for %s (job %s) failed at the scheduler but gwf cancel did not report it (output: %s)" % (nm, failed_cmd, lines[:6])
        table = w.status_table()
        for nm in sel:
            if nm in ids and str(ids[nm]) != failed_cmd and ST[js[pr.idx(nm)]] in ("pending", "running"):
                if table.get(nm) in ("submitted", "running"):
                    return "%s was cancelled but is still shown %s" % (nm, table.get(nm))
        for nm in sel:
            if nm in ids and str(ids[nm]) == failed_cmd and ST[js[pr.idx(nm)]] in ("pending", "running"):
                exp = "submitted" if ST[js[pr.idx(nm)]] == "pending" else "running"
                if table.get(nm) != exp:
                    return "the cancel command for %s failed (its job is still %s) but a later status shows it as %s" % (nm, exp, table.get(nm))
        for nm in pr.names:
            if nm not in sel and nm in ids and ST[js[pr.idx(nm)]] in ("pending", "running"):
                exp = "submitted" if ST[js[pr.idx(nm)]] == "pending" else "running"
                if table.get(nm) != exp:
                    return "%s was not selected but is now shown %s (was %s)" % (nm, table.get(nm), exp)
        # and the next run is free to submit them again
        n0 = len(abst.jobs_by_cmd(w))
        w.run()
        resub = [j["name"] for j in abst.jobs_by_cmd(w)[n0:]]
        for nm in sel:
            if nm in ids and str(ids[nm]) != failed_cmd and ST[js[pr.idx(nm)]] in ("pending", "running") and nm not in resub:
                return "%s was cancelled but the next run does not submit it (submitted: %s)" % (nm, resub)
        return ""
    finally:
        w.uninstall()


def q17(ja: int, jb: int, jc: int, pi: int, force: bool, answer: bool, k: int) -> str:
    """
    post: _ == ""
    """
    return q.run(_q17, (ja, jb, jc, pi, force, answer, k))


QUERIES = [
    {"name": "Q17", "fn": q17,
     "shards": {"quick": [{"be": "slurm", "pi": p, "k": k, "nstates": 3} for p in (0, 2, 3) for k in range(4)] + [{"be": b, "pi": 2, "k": k, "nstates": 3} for b in ("sge", "lsf") for k in (0, 1)] + [{"be": "local", "pi": 2, "k": 0, "nstates": 3}, {"be": "slurm", "pi": 1, "k": 1, "nstates": 3}, {"be": "slurm", "pi": 4, "k": 0, "nstates": 3}]
                         + [{"be": "slurm", "pi": p, "k": 0, "nstates": 3, "shape": "dotted"} for p in (5, 6, 7)]
                         + [{"be": b, "pi": 0, "k": 0, "nstates": 3, "held": True} for b in ("sge", "lsf")],
                "thorough": [{"be": b, "pi": p, "k": 0, "held": True} for b in ("sge", "lsf") for p in (0, 2, 3)] + [{"be": b, "pi": p, "k": 0, "shape": "dotted"} for b in ("slurm", "local") for p in (0, 5, 6, 7)] + [{"be": b, "pi": p, "k": k} for b in ("slurm", "sge", "lsf") for p in range(5) for k in range(4)] + [{"be": "local", "pi": p, "k": 0} for p in range(5)]},
     "timeout": {"quick": 1800, "thorough": 3600},
     "bound": "chain of 3 (in the held shards the first target's job sits at the scheduler in a state gwf has no name for: SGE Eqw, LSF UNKWN; and, for the last three selections, three targets named A.x, A_x, Axx); each target never submitted / pending / running (quick) + finished (thorough), symbolic; selections %s; --force or prompt answer; the k-th cancel command failing for k in 0..3 (symbolic; none for the pool, whose protocol has no answer to cancel); "
              "then status and run; Slurm all selections + two selections on SGE, LSF, pool (quick); everything (thorough)" % (PATS,)},
]


# ---------------------------------------------------------------- Q17p  cancelling a task in the real pool hits that task only
from vf.props import localpool as LP


def _q17p(e0, e1, e2, e3, e4, e5, f0, f1, f2, f3, f4, f5, rc0, rc1, rc2, rc3, sf, lf):
    r = LP.pool_body((e0, e1, e2, e3, e4, e5, f0, f1, f2, f3, f4, f5, rc0, rc1, rc2, rc3, sf, lf))
    if r is None or r == "":
        return r
    if r.startswith("unexpected"):
        return r
    mine = [part for part in r.split(" | ") if part.startswith("[C13]") or part.startswith("[C11]")]
    if LP.LAST_SAW_CANCEL[0] and mine:
        return "after a cancel request: " + " | ".join(mine)
    return ""


def q17p(e0: int, e1: int, e2: int, e3: int, e4: int, e5: int, f0: bool, f1: bool, f2: bool, f3: bool, f4: bool, f5: bool,
         rc0: int, rc1: int, rc2: int, rc3: int, sf: int, lf: int) -> str:
    """
    post: _ == ""
    """
    return q.run(_q17p, (e0, e1, e2, e3, e4, e5, f0, f1, f2, f3, f4, f5, rc0, rc1, rc2, rc3, sf, lf))


def _sp(shards):
    out = []
    for sh in shards:
        out.extend(LP.split(sh))
    return out


QUERIES.append(
    {"name": "Q17p", "fn": q17p,
     "shards": {"quick": _sp([{"scen": "chain", "cores": 1, "steps": 2}, {"scen": "fork", "cores": 2, "steps": 2}, {"scen": "fork", "cores": 1, "steps": 2}]),
                "thorough": _sp([{"scen": s, "cores": c, "steps": 3} for s in ("chain", "fork", "join", "late") for c in (1, 2)])},
     "timeout": {"quick": 900, "thorough": 3000},
     "bound": "the real worker pool (vf/props/localpool.py): event scripts containing a cancel request for any task (waiting for a dependency, for a core, running, finished): only that task and the tasks depending on it end cancelled; "
              "every other task runs to the state its own exit status gives"})
META["real"] = META["real"] + LP.META_COMMON["real"]
META["stubs"] = META["stubs"] + LP.META_COMMON["stubs"]
