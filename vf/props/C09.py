"""C09  Interrupted runs neither forget nor duplicate jobs the scheduler accepted."""
import json

from vf import q
from vf.oracles import plan as P
from vf.world import abst, vfs
from vf.world.cmds import ROOT
from vf.world.proj import Project

META = {
    "solver_reasoned": 'index of the failing scheduler command and index of the operation at which the process is killed (symbolic ints, ranges measured from an uninterrupted run).',
    "real": ["gwf.plugins.run.run (body)", "gwf.scheduling.submit_workflow/schedule/submit_backend", "gwf.backends.base.TrackingBackend.__init__/submit/close/__exit__", "gwf.core.FileSpecHashes.__init__/update/close/__exit__",
             "gwf.utils.atomic_write_json", "gwf.backends.utils.call", "gwf.backends.{slurm,sge,lsf}.*Ops.submit_target/get_job_states", "gwf.backends.local.Client/LocalOps"],
    "stubs": ["scheduler simulator with fault injection at the k-th command (non-zero exit / 'error:' on stderr with exit 0 / garbage on stdout with exit 0; the command then has no effect)",
              "VFS with a crash index: the k-th mutating file-system primitive or scheduler command (before or after it took effect) is the last thing the process does (Crash is a BaseException; "
              "the world is frozen afterwards, so __exit__ handlers cannot write)", "pool model dropping the connection at the k-th request"],
    "assumptions": ["one gwf process at a time per project", "the file system applies writes in program order and os.replace is atomic"],
    "outside": ["two concurrent gwf processes", "file-system reordering of writes", "more than 3 targets"],
}

FAULT_KINDS = ["non-zero exit", "error: on stderr, exit 0", "garbage on stdout, exit 0", "correct answer that arrives late"]


def _load_ok(pr):
    for path in (pr.w.tracked_path(), pr.w.hashes_path(), ROOT + "/.gwfconf.json"):
        f = pr.w.vfs.files.get(path)
        if f is not None:
            try:
                json.loads(f[1])
            except ValueError:
                return "state file %s is unreadable: %r" % (path, f[1][:60])
    return ""


def _second_run_checks(pr, be, jobs1, n_cmds_before, done=()):
    """jobs1: jobs the scheduler accepted in the interrupted run (all still pending, except those named in `done`,
    which finished successfully in the meantime)."""
    w = pr.w
    try:
        w.run()
    except Exception as exc:
        return "the next invocation does not start normally: %s: %s" % (type(exc).__name__, str(exc)[:120])
    jobs_all = abst.jobs_by_cmd(w)
    jobs2 = jobs_all[n_cmds_before + len(jobs1):]
    accepted = {}
    for j in jobs1:
        accepted[j["name"]] = j["id"]
    for j in jobs2:
        if j["name"] in accepted:
            return "target %s was accepted (job %s, still pending) and is submitted again (job %s)" % (j["name"], accepted[j["name"]], j["id"])
    names2 = [j["name"] for j in jobs2]
    want2 = [nm for nm in pr.names if nm not in accepted]
    if sorted(names2) != sorted(want2):
        return "the next run submitted %s, expected the remaining targets %s" % (names2, want2)
    latest = dict(accepted)
    for j in jobs2:
        i = pr.idx(j["name"])
        req = sorted(str(latest[pr.names[d]]) for d in pr.deps[i] if pr.names[d] not in done)
        if sorted(map(str, j["deps"])) != req:
            return "%s submitted with prerequisites %s, expected the accepted jobs %s" % (j["name"], j["deps"], req)
        latest[j["name"]] = j["id"]
    return ""


# ---------------------------------------------------------------- Q9a a scheduler command fails
NCMD9A = {}


def setup_q9a(shard):
    """Bound of the fault index = number of scheduler commands of an uninterrupted (second) run."""
    be, shape = shard["be"], shard["shape"]
    pr = Project(shape, be, hashing=True)
    pr.add_sources(5)
    w = pr.w
    w.install()
    try:
        if shard.get("prior"):
            w.run()
            for n_, j in enumerate(abst.jobs_by_cmd(w)):
                abst.set_state(w, j["id"], "failed" if n_ == 0 else "cancelled")
            if w.sim is not None:
                w.sim.ncmd = 0
            else:
                w.pool.nreq = 0
        w.run()
        NCMD9A["n"] = w.sim.ncmd if w.sim is not None else w.pool.nreq
    finally:
        w.uninstall()


def _q9a(k, kind):
    sh = q.SHARD
    be, shape = sh["be"], sh["shape"]
    if not (1 <= k and k <= NCMD9A["n"] and q.in_range(kind, 4)):
        return q.SKIP
    if be == "local" and kind != 0:
        return q.SKIP
    if kind == 3 and not sh.get("late"):
        return q.SKIP
    kk = 1
    while kk < k:
        kk += 1
    kind = q.pick([0, 1, 2, 3], kind)
    if kind == 2 and be in ("slurm", "sge") and q.excluded("C09-garbage-id"):
        return q.SKIP
    with q.notrace():
        pr = Project(shape, be, hashing=True)
        pr.add_sources(5)
        w = pr.w
        if w.sim is not None:
            w.sim.fault_at, w.sim.fault_kind = kk, kind
        else:
            w.pool.fault_at = kk
        w.install()
    try:
        prior_jobs = []
        if sh.get("prior"):
            # an earlier complete run whose jobs then failed (first target) / were cancelled (the others)
            fa, fk = (w.sim.fault_at, w.sim.fault_kind) if w.sim is not None else (w.pool.fault_at, 0)
            if w.sim is not None:
                w.sim.fault_at = None
            else:
                w.pool.fault_at = None
            w.concretely(w.run)
            prior_jobs = abst.jobs_by_cmd(w)
            for n_, j in enumerate(prior_jobs):
                abst.set_state(w, j["id"], "failed" if n_ == 0 else "cancelled")
            if w.sim is not None:
                w.sim.fault_at, w.sim.fault_kind, w.sim.ncmd = fa, fk, 0
            else:
                w.pool.fault_at, w.pool.nreq = fa, 0
        failed = None
        try:
            w.run()
        except Exception as exc:
            failed = type(exc).__name__
        ncmd = w.sim.ncmd if w.sim is not None else w.pool.nreq
        if ncmd < kk:
            return "fault index %d within the %d commands of an uninterrupted run, but only %d were issued" % (kk, NCMD9A["n"], ncmd)
        if w.sim is not None:
            w.sim.fault_at = None
        else:
            w.pool.fault_at = None
        msg = _load_ok(pr)
        if msg:
            return msg
        jobs1 = abst.jobs_by_cmd(w)[len(prior_jobs):]
        accepted = [j["name"] for j in jobs1]
        hashes = pr.read_json(w.hashes_path())
        for nm in hashes:
            if nm not in accepted and not prior_jobs:
                return "spec hash of %s recorded although its submission was not accepted (fault: %s at command %d; accepted: %s)" % (nm, FAULT_KINDS[kind], kk, accepted)
        tracked = pr.read_json(w.tracked_path())
        for nm in accepted:
            if str(tracked.get(nm)) != str([j["id"] for j in jobs1 if j["name"] == nm][-1]):
                return "accepted job of %s (%s) is not recorded after the failed run: %s" % (nm, [j["id"] for j in jobs1 if j["name"] == nm], tracked)
        for nm in tracked:
            if nm not in accepted and not prior_jobs:
                return "a job id is recorded for %s although the scheduler accepted nothing for it: %r" % (nm, tracked[nm])
        if kind == 3:
            # nothing failed: the scheduler carried out every command, one answer merely took long.  Every accepted job is on record
            # (checked above) and the next run must not submit any of them again.
            return _second_run_checks(pr, be, jobs1, len(prior_jobs))
        if failed is None:
            return "command %d failed (%s) but the run reported success" % (kk, FAULT_KINDS[kind])
        done = ()
        if sh.get("progress") and len(jobs1) >= 2:
            # the scheduler makes progress before the next invocation: the first accepted job finishes (output written, job gone
            # from the live queue); the others are still queued - on Slurm after a requeue, so that accounting still holds the
            # terminal row of their first attempt
            first = jobs1[0]
            for o in pr.outputs[pr.idx(first["name"])]:
                w.file(o, 50, "made by " + first["name"])
            abst.set_state(w, first["id"], "done")
            done = (first["name"],)
            if be == "slurm":
                for j in jobs1[1:]:
                    w.sim.acct_lag[str(j["id"])] = "NODE_FAIL"
        return _second_run_checks(pr, be, jobs1, len(prior_jobs), done)
    finally:
        w.uninstall()


def q9a(k: int, kind: int) -> str:
    """
    post: _ == ""
    """
    return q.run(_q9a, (k, kind))


# ---------------------------------------------------------------- Q9b the process is killed
OPS9B = {}


def _build9b(sh, hashing):
    be, shape = sh["be"], sh["shape"]
    pr = Project(shape, be, hashing=hashing)
    pr.add_sources(5)
    w = pr.w
    if sh.get("prior"):
        # an earlier, complete invocation left state files behind
        w.vfs.add(w.tracked_path(), 1, json.dumps({"Old": "1" if be != "local" else 1}))
        if hashing:
            pr.write_hashes({"Old": "0" * 40})
    if w.sim is not None:
        w.sim.tick = lambda exe: w.vfs.tick("cmd:" + exe, exe)
    return pr


def setup_q9b(shard):
    """The bound on the crash index is derived from the code: the number of operations an uninterrupted run performs."""
    for hashing in (False, True):
        pr = _build9b(shard, hashing)
        pr.w.install()
        try:
            pr.w.run()
            OPS9B[hashing] = pr.w.vfs.ops
        finally:
            pr.w.uninstall()


def _q9b(k, hashing):
    sh = q.SHARD
    be, shape = sh["be"], sh["shape"]
    hashing = True if hashing else False
    if not (1 <= k and k <= OPS9B[hashing]):
        return q.SKIP
    kk = 1
    while kk < k:
        kk += 1
    with q.notrace():
        pr = _build9b(sh, hashing)
        w = pr.w
        w.vfs.crash_at = kk
        w.install()
    try:
        crashed = False
        try:
            w.run()
        except BaseException as exc:
            # Crash models SIGKILL; whatever __exit__ handlers raise afterwards in the frozen world is an artefact
            if not w.vfs.frozen:
                raise
            crashed = True
        if not crashed:
            return "crash index %d within the %d operations of an uninterrupted run, but nothing was interrupted" % (kk, OPS9B[hashing])
        ops_before = [op for op in w.vfs.log]
        w.vfs.crash_at = None
        w.vfs.frozen = False
        if w.sim is not None:
            w.sim.tick = None
        msg = _load_ok(pr)
        if msg:
            return msg + " (killed at operation %d: %s)" % (kk, ops_before[-1:])
        jobs1 = abst.jobs_by_cmd(w)
        accepted = [j["name"] for j in jobs1]
        tracked = pr.read_json(w.tracked_path())
        hashes = pr.read_json(w.hashes_path())
        for nm in hashes:
            if nm != "Old" and nm not in accepted:
                return "spec hash of %s recorded although its submission was not accepted" % nm
        lost = [nm for nm in accepted if nm not in tracked]
        if lost and q.excluded("C09-hard-kill-loses-ids"):
            # known finding: only the remaining clauses are checked for this crash point
            try:
                w.run()
            except Exception as exc:
                return "the invocation after the kill does not start normally: %s: %s" % (type(exc).__name__, str(exc)[:120])
            return ""
        if lost:
            return "killed at operation %d (%s): the scheduler had accepted %s but their ids are not recorded, the next run submits them again" % (kk, ops_before[-1:], lost)
        return _second_run_checks(pr, be, jobs1, 0)
    finally:
        w.uninstall()


def q9b(k: int, hashing: bool) -> str:
    """
    post: _ == ""
    """
    return q.run(_q9b, (k, hashing))


def w9b(k: int, hashing: bool) -> str:
    """
    post: _ == ""
    """
    return q.run(_q9b, (k, hashing))


QUERIES = [
    {"name": "Q9a", "fn": q9a, "setup": setup_q9a,
     "shards": {"quick": [{"be": "slurm", "shape": "chain2"}, {"be": "slurm", "shape": "fork3"}, {"be": "lsf", "shape": "chain2"}, {"be": "local", "shape": "chain2"},
                          {"be": "slurm", "shape": "chain3", "prior": True}, {"be": "sge", "shape": "chain2", "prior": True},
                          {"be": "slurm", "shape": "fork3", "progress": True}, {"be": "slurm", "shape": "chain3", "progress": True}, {"be": "slurm", "shape": "chain2", "late": True}, {"be": "sge", "shape": "chain2", "late": True}, {"be": "lsf", "shape": "chain2", "prior": True}],
                "thorough": [{"be": b, "shape": s, "prior": p} for b in ("slurm", "sge", "lsf", "local") for s in ("chain2", "fork3", "chain3") for p in (False, True)]
                            + [{"be": b, "shape": s, "progress": True} for b in ("slurm", "sge", "lsf") for s in ("fork3", "chain3")]},
     "timeout": {"quick": 900, "thorough": 1800},
     "bound": "(optionally after an earlier complete run whose jobs then failed / were cancelled) fault at the k-th scheduler command of the run (k symbolic from 1 to the number of commands an uninterrupted run issues, measured at start-up: state queries and submissions), 3 fault kinds (+ in the late shards: a command that is carried out but answers late); then (in the progress shards: after the first accepted job finished while the others are still queued, Slurm accounting lagging behind a requeue) a fault-free run; chain of 2, fork of 3 (quick); + chain of 3, all backends (thorough); spec hashing on"},
    {"name": "W9b", "fn": w9b, "setup": setup_q9b, "shards": [], "timeout": 60, "bound": "witness of the known finding C09-hard-kill-loses-ids (concrete)"},
    {"name": "Q9b", "fn": q9b, "setup": setup_q9b,
     "shards": {"quick": [{"be": "slurm", "shape": "chain2"}, {"be": "slurm", "shape": "chain2", "prior": True}, {"be": "sge", "shape": "chain2"}, {"be": "lsf", "shape": "chain2", "prior": True}],
                "thorough": [{"be": b, "shape": s, "prior": p} for b in ("slurm", "sge", "lsf", "local") for s in ("chain2", "fork3") for p in (False, True)]},
     "timeout": {"quick": 900, "thorough": 1800},
     "bound": "hard kill at the k-th operation of the first run (k symbolic from 1 to the number of operations an uninterrupted run performs - measured concretely at start-up, 23..52 here - i.e. every mutating file-system primitive - each write() call of json.dump separately, os.replace - and every scheduler command, before and after it took effect); hashing on/off; with/without state files of an earlier invocation; then a normal run"},
]
