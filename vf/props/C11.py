"""C11  local worker pool (see localpool.py for the shared query body; this module keeps the clauses tagged [C11])."""
from vf import q
from vf.props import localpool as LP

TAG = "[C11]"
META = dict(LP.META_COMMON)
META["solver_reasoned"] = 'exit status of every child (unbounded symbolic int: negative = killed by a signal), event script (selectors over the enabled events at each step), fault bit masks.'


def _body(e0, e1, e2, e3, e4, e5, f0, f1, f2, f3, f4, f5, rc0, rc1, rc2, rc3, sf, lf):
    r = LP.pool_body((e0, e1, e2, e3, e4, e5, f0, f1, f2, f3, f4, f5, rc0, rc1, rc2, rc3, sf, lf))
    if r is None or r == "":
        return r
    if r.startswith("unexpected"):
        return r
    mine = [part for part in r.split(" | ") if part.startswith(TAG)]
    if mine:
        return " | ".join(mine)
    return ""        # clauses of another local-pool property: reported by that property's check


def pool(e0: int, e1: int, e2: int, e3: int, e4: int, e5: int, f0: bool, f1: bool, f2: bool, f3: bool, f4: bool, f5: bool,
         rc0: int, rc1: int, rc2: int, rc3: int, sf: int, lf: int) -> str:
    """
    post: _ == ""
    """
    return q.run(_body, (e0, e1, e2, e3, e4, e5, f0, f1, f2, f3, f4, f5, rc0, rc1, rc2, rc3, sf, lf))


def _sp(shards):
    out = []
    for sh in shards:
        out.extend(LP.split(sh))
    return out


def S(scen, cores, steps, **kw):
    d = {"scen": scen, "cores": cores, "steps": steps}
    d.update(kw)
    return d

QUERIES = [
    {"name": "pool", "fn": pool,
     "shards": {"quick": _sp([S("chain", 1, 3), S("fork", 2, 3), S("join", 2, 3), S("late", 1, 3), S("tl-chain", 1, 3), S("late-join", 2, 3), S("chain", 1, 2, faults=True), S("blank", 1, 3)]),
                "thorough": _sp([S(s, c, 3) for s in ("chain", "fork", "join", "late", "late-join", "tl-chain", "skip", "blank") for c in (1, 2)] + [S("chain", 1, 4), S("fork", 2, 4)] + [S("chain", 1, 3, races=True), S("join", 2, 3, races=True), S("chain", 1, 3, faults=True)])},
     "timeout": {"quick": 900, "thorough": 3000},
     "bound": "task DAGs chain/fork/join/late-submission/time-limited-dependency/chain through a task with a blank script, on 3 tasks; event script of 3 (quick) / 4 (thorough) events, each any enabled event (exit of any live child with a symbolic "
              "exit status, cancel of any task, next timer, late submission) or stop; then everything outstanding is delivered; 1 or 2 cores; thorough adds back-to-back delivery (races) and start/log faults"},
]


# ---------------------------------------------------------------- Q11s the same guarantee for tasks submitted over the socket protocol
def _q11s(how, rc, late, two):
    """Tasks are enqueued the way `gwf -b local run` does it: JSON lines handled by the real Server.handle_connection.
    a (and optionally a2) first, then b depending on it (them).  a ends in one of four ways; b may be submitted before
    or after a ended.  b's process may start only if every dependency's process ran to exit status 0."""
    import json as _json
    from gwf.backends.local import Server
    from vf.props.C14 import Reader, Writer, msg
    from vf.world.poolworld import LocalStatus, Pool
    if not q.in_range(how, 4):
        return q.SKIP
    how = q.pick([0, 1, 2, 3], how)        # 0 exit status rc, 1 cancelled by a request, 2 cannot be started, 3 time limit
    late, two = (True if late else False), (True if two else False)
    pool = Pool(max_cores=2)
    if how == 2:
        pool.spawn_fail_names.add("a")
    pool.install()
    try:
        loop, sched = pool.loop, pool.sched
        srv = Server(sched)
        r, w = Reader(loop), Writer()
        loop.create_task(srv.handle_connection(r, w))

        def enqueue(name, deps, tl=None):
            pool.pending_names.append(name)
            r.feed(msg("enqueue_task", name=name, script="job " + name, time_limit=tl, working_dir="/vfs/proj", deps=deps))
            pool.settle()
            ln = w.next_line()
            ans = _json.loads(ln) if ln else {}
            if ans.get("__kind__") != "task_enqueued":
                raise q.HarnessError("enqueue answered %r" % (ans,))
            pool.names[ans["tid"]] = name
            pool.deps[ans["tid"]] = list(deps)
            return ans["tid"]

        def end_a(ta):
            p = pool.proc_of(ta)
            if how == 0:
                if p is not None and p.alive():
                    p.rc_given = rc
                    pool.exit(p, rc)
            elif how == 1:
                r.feed(msg("cancel_task", tid=ta))
            elif how == 3:
                if pool.timer():
                    pass
            pool.settle()
            for _ in range(4):
                if pool.timer():
                    pool.settle()

        ta = enqueue("a", [], 5 if how == 3 else None)
        deps = [ta]
        if two:
            ta2 = enqueue("a2", [])
            deps.append(ta2)
        if late:
            end_a(ta)
            tb = enqueue("b", deps)
        else:
            tb = enqueue("b", deps)
            end_a(ta)
        if two:
            p2 = pool.proc_of(ta2)
            if p2 is not None and p2.alive():
                p2.rc_given = 0
                pool.exit(p2, 0)
                pool.settle()
        for _ in range(4):
            for p in pool.live():
                p.rc_given = 0
                pool.exit(p, 0)
                pool.settle()
            if pool.timer():
                pool.settle()
        pa = pool.proc_of(ta)
        a_ok = pa is not None and pa.ran_to_end and pa.rc_given == 0 and how == 0
        started_b = pool.proc_of(tb) is not None
        ways = ["exited with status 0" if a_ok else "exited with a non-zero status", "was cancelled", "could not be started", "exceeded its time limit"]
        if started_b != a_ok:
            return "[C11] dependency a %s; b (submitted %s over the socket protocol) %s" % (ways[how], "afterwards" if late else "before that", "was started" if started_b else "was never started")
        st = sched.task_states.get(tb)
        if a_ok and st != LocalStatus.COMPLETED:
            return "[C11] every dependency completed but b ended %s" % (st.name if st else st)
        if not a_ok and st == LocalStatus.COMPLETED:
            return "[C11] b is completed although dependency a %s" % ways[how]
        return ""
    finally:
        pool.uninstall()


def q11s(how: int, rc: int, late: bool, two: bool) -> str:
    """
    post: _ == ""
    """
    return q.run(_q11s, (how, rc, late, two))


QUERIES.append(
    {"name": "Q11s", "fn": q11s, "shards": [{}], "timeout": 600,
     "bound": "tasks submitted as JSON lines through the real Server.handle_connection: a (optionally a second dependency), then b depending on it; a exits with a symbolic status / is cancelled by a request / cannot be started / exceeds its time limit; b submitted before or after a ended"})
META["real"] = list(META.get("real", [])) + ["gwf.backends.local.Server.handle_connection (request decoding on the way to enqueue_task / cancel_task)"]
