"""C11  local worker pool (see localpool.py for the shared query body; this module keeps the clauses tagged [C11])."""
from vf import q
from vf.props import localpool as LP

TAG = "[C11]"
META = dict(LP.META_COMMON)
META["solver_reasoned"] = 'exit status of every child (unbounded symbolic int: negative = killed by a signal), event script (selectors over the enabled events at each step), fault bit masks.'


def _body(e0, e1, e2, e3, e4, e5, f0, f1, f2, f3, f4, f5, rc0, rc1, rc2, rc3, sf, lf):
    r = LP.pool_body((e0, e1, e2, e3, e4, e5, f0, f1, f2, f3, f4, f5, rc0, rc1, rc2, rc3, sf, lf))
    if r is None or r == "":
        return r
    if r.startswith("unexpected"):
        return r
    mine = [part for part in r.split(" | ") if part.startswith(TAG)]
    if mine:
        return " | ".join(mine)
    return ""        # clauses of another local-pool property: reported by that property's check


def pool(e0: int, e1: int, e2: int, e3: int, e4: int, e5: int, f0: bool, f1: bool, f2: bool, f3: bool, f4: bool, f5: bool,
         rc0: int, rc1: int, rc2: int, rc3: int, sf: int, lf: int) -> str:
    """
    post: _ == ""
    """
    return q.run(_body, (e0, e1, e2, e3, e4, e5, f0, f1, f2, f3, f4, f5, rc0, rc1, rc2, rc3, sf, lf))


def _sp(shards):
    out = []
    for sh in shards:
        out.extend(LP.split(sh))
    return out


def S(scen, cores, steps, **kw):
    d = {"scen": scen, "cores": cores, "steps": steps}
    d.update(kw)
    return d

QUERIES = [
    {"name": "pool", "fn": pool,
     "shards": {"quick": _sp([S("chain", 1, 3), S("fork", 2, 3), S("join", 2, 3), S("late", 1, 3), S("tl-chain", 1, 3), S("late-join", 2, 3), S("chain", 1, 2, faults=True)]),
                "thorough": _sp([S(s, c, 3) for s in ("chain", "fork", "join", "late", "late-join", "tl-chain", "skip") for c in (1, 2)] + [S("chain", 1, 4), S("fork", 2, 4)] + [S("chain", 1, 3, races=True), S("join", 2, 3, races=True), S("chain", 1, 3, faults=True)])},
     "timeout": {"quick": 900, "thorough": 3000},
     "bound": "task DAGs chain/fork/join/late-submission/time-limited-dependency on 3 tasks; event script of 3 (quick) / 4 (thorough) events, each any enabled event (exit of any live child with a symbolic "
              "exit status, cancel of any task, next timer, late submission) or stop; then everything outstanding is delivered; 1 or 2 cores; thorough adds back-to-back delivery (races) and start/log faults"},
]
