"""C13  local worker pool (see localpool.py for the shared query body; this module keeps the clauses tagged [C13])."""
from vf import q
from vf.props import localpool as LP

TAG = "[C13]"
META = dict(LP.META_COMMON)
META["solver_reasoned"] = 'as C11, plus back-to-back delivery flags.'


def _body(e0, e1, e2, e3, e4, e5, f0, f1, f2, f3, f4, f5, rc0, rc1, rc2, rc3, sf, lf):
    r = LP.pool_body((e0, e1, e2, e3, e4, e5, f0, f1, f2, f3, f4, f5, rc0, rc1, rc2, rc3, sf, lf))
    if r is None or r == "":
        return r
    if r.startswith("unexpected"):
        return r
    mine = [part for part in r.split(" | ") if part.startswith(TAG)]
    if mine:
        return " | ".join(mine)
    return ""        # clauses of another local-pool property: reported by that property's check


def pool(e0: int, e1: int, e2: int, e3: int, e4: int, e5: int, f0: bool, f1: bool, f2: bool, f3: bool, f4: bool, f5: bool,
         rc0: int, rc1: int, rc2: int, rc3: int, sf: int, lf: int) -> str:
    """
    post: _ == ""
    """
    return q.run(_body, (e0, e1, e2, e3, e4, e5, f0, f1, f2, f3, f4, f5, rc0, rc1, rc2, rc3, sf, lf))


def _sp(shards):
    out = []
    for sh in shards:
        out.extend(LP.split(sh))
    return out


def S(scen, cores, steps, **kw):
    d = {"scen": scen, "cores": cores, "steps": steps}
    d.update(kw)
    return d

from vf.props import poolvalid

QUERIES = [
    {"name": "V13-stubs", "fn": poolvalid.validate, "concrete": True, "shards": [{}], "timeout": 300,
     "bound": "stub validation (concrete): 9 scenarios (those of tests/backends/test_local.py plus a skipped dependent and a missing working directory) end in the same states on the deterministic loop with fake children and on real asyncio with real sh children"},
    {"name": "pool", "fn": pool,
     "shards": {"quick": _sp([S("chain", 1, 3), S("one-tl", 1, 3), S("fork", 2, 3), S("one", 1, 2, faults=True), S("chain", 1, 2, faults=True), S("late", 2, 3), S("join", 2, 2), S("one-tl", 1, 2, races=True), S("chain", 1, 2, races=True), S("one", 1, 2, big_output=True), S("one-tl", 1, 3, big_output=True), S("indep-tl", 1, 3), S("tl-chain", 1, 3), S("one-tl", 1, 3, ignore_term=True)]),
                "thorough": _sp([S(s, c, 3) for s in ("chain", "one-tl", "fork", "late", "join", "indep-tl") for c in (1, 2)] + [S("chain", 1, 4), S("fork", 2, 4)] + [S("chain", 1, 3, faults=True), S("fork", 2, 3, faults=True), S("one-tl", 1, 4, races=True), S("chain", 1, 3, races=True)])},
     "timeout": {"quick": 900, "thorough": 3000},
     "bound": "scenarios as C11 plus single tasks with and without time limit; start failure (missing working directory) and log-write failure per task as symbolic bit masks; event script of 2-3 (quick) / 3-4 (thorough) events + drain, incl. two scenarios with back-to-back delivery (an exit racing with a cancel or a time-out) in quick; "
              "one scenario whose child ignores SIGTERM (repeated cancels, cancel after a time-out); one scenario whose child writes more than the pipes hold (it can only exit while its output is being read); every task final, final state = what happened, finals never change (also under cancel), started at most once, logs complete, no child alive at the end"},
]
