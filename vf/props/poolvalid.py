"""Validation of the local-pool stubs: the scenarios of tests/backends/test_local.py (and two more)
are run (a) on the deterministic loop with fake child processes and (b) on real asyncio with real
`sh` children in a scratch directory; both must end in the states those tests assert."""
import asyncio
import os
import shutil
import tempfile

from vf.world.poolworld import LocalStatus, Pool

from gwf.backends.local import Scheduler

# name, tasks [(name, script for the real run, deps, time_limit, exit code for the fake run or None = never exits)], cancel index or None, expected final states
SCENARIOS = [
    ("success", [("a", "exit 0", [], None, 0)], None, ["COMPLETED"]),
    ("failure", [("a", "exit 1", [], None, 1)], None, ["FAILED"]),
    ("success with dependent", [("a", "exit 0", [], None, 0), ("b", "exit 0", [0], None, 0)], None, ["COMPLETED", "COMPLETED"]),
    ("failed with dependents", [("a", "exit 1", [], None, 1), ("b", "exit 0", [0], None, 0), ("c", "exit 0", [1], None, 0)], None, ["FAILED", "FAILED", "FAILED"]),
    ("cancelled with dependents", [("a", "sleep 5", [], None, None), ("b", "exit 0", [0], None, 0)], 0, ["CANCELLED", "CANCELLED"]),
    ("times out", [("a", "sleep 5", [], 0.3, None), ("b", "exit 0", [0], None, 0)], None, ["KILLED", "KILLED"]),
    ("within time limit", [("a", "exit 0", [], 5, 0)], None, ["COMPLETED"]),
    ("skipped dependent does not free a core", [("a", "exit 1", [], None, 1), ("b", "exit 0", [0], None, 0), ("c", "sleep 0.3", [], None, 0), ("d", "sleep 0.3", [], None, 0)], None,
     ["FAILED", "FAILED", "COMPLETED", "COMPLETED"]),
    ("missing working directory", [("a", "exit 0", [], None, "spawn-fail")], None, ["FAILED"]),
]


def on_detloop(tasks, cancel):
    pool = Pool(max_cores=1)
    pool.install()
    try:
        tids = []
        for name, script, deps, tl, rc in tasks:
            tids.append(pool.enqueue(name, [tids[d] for d in deps], tl, spawn_fail=(rc == "spawn-fail")))
        if cancel is not None:
            pool.cancel(tids[cancel])
            pool.settle()
        rcs = {name: rc for name, script, deps, tl, rc in tasks}
        for _ in range(20):
            progressed = False
            for p in pool.live():
                rc = rcs[pool.names[p.tid]]
                if rc is not None:
                    pool.exit(p, rc)
                    pool.settle()
                    progressed = True
            if not progressed:
                if pool.timer():
                    pool.settle()
                    progressed = True
            if not progressed:
                break
        return [pool.state(t).name for t in tids], pool.max_live
    finally:
        pool.uninstall()


def on_real_asyncio(tasks, cancel):
    d = tempfile.mkdtemp(prefix="vfpool")
    os.makedirs(os.path.join(d, ".gwf", "logs"))

    async def main():
        s = Scheduler(d, 1)
        tids = []
        for name, script, deps, tl, rc in tasks:
            wd = os.path.join(d, "missing") if rc == "spawn-fail" else d
            tids.append(await s.enqueue_task(name, script, wd, tl, [tids[k] for k in deps]))
        if cancel is not None:
            await asyncio.sleep(0.2)
            await s.cancel_task(tids[cancel])
        await asyncio.wait_for(s.wait(), 30)
        return [s.task_states[t].name for t in tids]
    try:
        return asyncio.run(main())
    finally:
        shutil.rmtree(d, ignore_errors=True)


def validate():
    for label, tasks, cancel, want in SCENARIOS:
        got_det, max_live = on_detloop(tasks, cancel)
        if got_det != want:
            return "scenario %r on the deterministic loop ends %s, the test suite expects %s" % (label, got_det, want)
        if max_live > 1:
            return "scenario %r on the deterministic loop ran %d children with 1 core" % (label, max_live)
        got_real = on_real_asyncio(tasks, cancel)
        if got_real != want:
            return "scenario %r on real asyncio with sh children ends %s, expected %s" % (label, got_real, want)
    return ""
