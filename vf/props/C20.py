"""C20  Configuration round-trips, is project-local, and reaches the selected backend."""
import json
import os
import re
import types

import click

from vf import q
from vf.smt import kernels
from vf.world import abst, vfs
from vf.world.cmds import ROOT, World

from gwf import cli as cli_mod
from gwf.backends import create_backend
from gwf.conf import CONFIG_DEFAULTS, FileConfig

META = {
    "solver_reasoned": 'E2: unbounded strings (namespace and key); otherwise selectors over value/key catalogues and flag/config presence.',
    "real": ["gwf.conf.FileConfig.load/dump/get/__getitem__/__setitem__/__delitem__/get_namespace", "gwf.conf.try_conv/try_int/try_true/try_false", "gwf.plugins.config.get/set/unset (bodies)",
             "gwf.cli.main (body)", "gwf.backends.base.create_backend", "gwf.backends.slurm.create_backend/SlurmOps.get_job_states", "gwf.backends.local.create_backend/LocalOps/Client.connect"],
    "stubs": ["VFS for .gwfconf.json", "cli.configure_logging recorded; guess_backend fixed; os.getcwd fixed", "scheduler simulator / pool model (to observe sacct calls and the host/port the client connects to)",
              "E2 kernel: get_namespace's prefix test and slice arithmetic translated from the AST to the string theory of z3/cvc5 (unbounded strings)"],
    "assumptions": ["'integer' for coercion = optional sign followed by ASCII digits; for other spellings int() accepts (' 1', '1_0') either outcome is accepted"],
    "outside": ["click's option parsing", "values/keys outside the catalogues (except in the E2 kernel, which is unbounded)"],
}

CONF = ROOT + "/.gwfconf.json"
VALUES = ["0", "00", "-1", "+1", "7", "12345678901234567890", "true", "yes", "false", "no", "True", "YES", "", "1.0", "x", "none", "null", " 1", "1_0", "no ", "[1]", "a b", "é", "S\u00f8ren \u00c6r\u00f8", "\u4e2d\u6587"]
KEYS = ["verbose", "user.key", "backend.slurm.log_mode", "backend.slurm.log_mode_extra", "backend", "a.b.c"]


def coerce_spec(v):
    """Returns the set of acceptable stored values."""
    if re.fullmatch(r"[+-]?[0-9]+", v):
        return [int(v)]
    if v in ("true", "yes"):
        return [True]
    if v in ("false", "no"):
        return [False]
    try:
        iv = int(v)
        return [v, iv]          # exotic integer spellings: no claim
    except ValueError:
        return [v]


def _same(a, b):
    return type(a) is type(b) and a == b


# ---------------------------------------------------------------- Q20a coercion + round trip through the file
def _q20a(vi, ki):
    if not (q.in_range(vi, len(VALUES)) and q.in_range(ki, len(KEYS))):
        return q.SKIP
    v, k = q.pick(VALUES, vi), q.pick(KEYS, ki)
    with q.notrace():
        w = World("slurm")
        w.install()
    try:
        w.config_set(k, v)
        if CONF not in w.vfs.files:
            return "config file not written next to the workflow file: %s" % sorted(w.vfs.files)
        stored = json.loads(w.vfs.files[CONF][1])
        acc = coerce_spec(v)
        if list(stored.keys()) != [k]:
            return "file holds keys %s after setting only %r (defaults must not be written)" % (sorted(stored), k)
        if not any(_same(stored[k], a) for a in acc):
            return "set %r=%r stored %r, expected %r" % (k, v, stored[k], acc)
        got = w.config_get(k)          # a later invocation: fresh FileConfig loaded from the file
        if not any(_same(got, a) for a in acc):
            return "get %r returned %r in a later invocation, expected %r" % (k, got, acc)
        # ... and one under another locale (cron, a batch node with LANG=C): files opened without an explicit encoding use ASCII there
        w.vfs.locale_encoding = "ascii"
        try:
            got = w.config_get(k)
        except UnicodeError as exc:
            return "after set %r=%r the configuration cannot be read under the C locale: %s" % (k, v, type(exc).__name__)
        finally:
            w.vfs.locale_encoding = None
        if not any(_same(got, a) for a in acc):
            return "get %r returned %r under the C locale, expected %r" % (k, got, acc)
        return ""
    finally:
        w.uninstall()


def q20a(vi: int, ki: int) -> str:
    """
    post: _ == ""
    """
    return q.run(_q20a, (vi, ki))


# ---------------------------------------------------------------- Q20b one step of set / unset / get on an arbitrary user map
SETV = ["abc", "3", "no", "", "1", "0", "yes", "x", "5"]
PRE = [None, "x", 5, True, 0, 1, False]     # 1 == True and 0 == False in Python, but they are different stored values


def _q20b(p0, p1, p2, p3, op, ki, vi):
    pre_sel = [p0, p1, p2]
    keys = KEYS[:3]
    if p3 != 0 or op != q.SHARD["op"]:
        return q.SKIP
    for p in pre_sel:
        if not q.in_range(p, len(PRE)):
            return q.SKIP
    if not (q.in_range(ki, 3) and q.in_range(vi, len(SETV))):
        return q.SKIP
    if "ki" in q.SHARD and ki != q.SHARD["ki"]:
        return q.SKIP
    user = {"unrelated.key": "keep", "clean_logs": False}
    for i in range(3):
        if i != ki and pre_sel[i] >= 3:
            return q.SKIP          # the bool / 0 / 1 values only matter on the key the step addresses
        val = q.pick(PRE, pre_sel[i])
        if val is not None:
            user[keys[i]] = val
    k = q.pick(keys, ki)
    v = q.pick(SETV, vi)
    with q.notrace():
        w = World("slurm")
    w.vfs.add(CONF, 1, json.dumps(user))
    w.install()
    try:
        model = dict(user)
        if op != 0 and vi != 0:
            return q.SKIP
        if op == 0:
            w.config_set(k, v)
            model[k] = coerce_spec(v)[0]
        elif op == 1:
            w.config_unset(k)
            model.pop(k, None)
        else:
            got = w.config_get(k)
            if k in user or k in CONFIG_DEFAULTS:
                want = user[k] if k in user else CONFIG_DEFAULTS[k]
                if not _same(got, want):
                    return "get %r -> %r, expected %r" % (k, got, want)
            elif any(_same(got, v) or got == str(v) for v in user.values()):
                # a key that is not set: whatever gwf prints (the wording is free), it is not another key's value
                return "get of the unset key %r printed %r, which is the value of another key" % (k, got)
        after = json.loads(w.vfs.files[CONF][1])
        if set(after) != set(model):
            return "after the step the file holds keys %s, expected %s" % (sorted(after), sorted(model))
        for kk in model:
            if not _same(after[kk], model[kk]):
                return "key %r is %r after the step, expected %r" % (kk, after[kk], model[kk])
        return ""
    finally:
        w.uninstall()


def q20b(p0: int, p1: int, p2: int, p3: int, op: int, ki: int, vi: int) -> str:
    """
    post: _ == ""
    """
    return q.run(_q20b, (p0, p1, p2, p3, op, ki, vi))


# ---------------------------------------------------------------- E2 + E1 twin: namespace
def ns_replay(ns, key):
    cfg = FileConfig(path="/vfs/none", data=__import__("collections").ChainMap({key: "V"}, {}))
    got = cfg.get_namespace(ns)
    want = {key[len(ns) + 1:]: "V"} if key.startswith(ns + ".") else {}
    if got != want:
        return "get_namespace(%r) with key %r -> %r, expected %r" % (ns, key, got, want)
    return ""


NS_KEYS = ["backend.slurm.log_mode", "backend.slurm", "backend.slurmx.log_mode", "backend.slurm_old.x", "backend.slurm.", "backend.slurm.a.b", "xbackend.slurm.a", "backend.local.port", "backend", ""]


SUFFIX = ["", ".", "x", "_"]


def _q20n(ki, s1, s2):
    if not (q.in_range(ki, len(NS_KEYS)) and q.in_range(s1, len(SUFFIX)) and q.in_range(s2, len(SUFFIX))):
        return q.SKIP
    key = q.pick(NS_KEYS, ki) + q.pick(SUFFIX, s1) + q.pick(SUFFIX, s2)
    return ns_replay("backend.slurm", key) or ""


def q20n(ki: int, s1: int, s2: int) -> str:
    """
    post: _ == ""
    """
    return q.run(_q20n, (ki, s1, s2))


# ---------------------------------------------------------------- Q20p precedence flag > config > default in cli.main
def _q20p(bf, bc, vf, vc, cf, cc, ce):
    """bf/bc: backend flag / config (0 absent, 1 'slurm', 2 'sge'); vf/vc verbosity flag / config
    (0 absent, 1 'debug', 2 'error'; config also 3 = invalid 'loud'); cf colour flag (0 absent, 1 --no-color,
    2 --use-color); cc config no_color (0 absent, 1 True, 2 False); ce NO_COLOR in the environment."""
    if bf != q.SHARD["bf"]:
        return q.SKIP
    if not (q.in_range(bf, 3) and q.in_range(bc, 3) and q.in_range(vf, 3) and q.in_range(vc, 4) and q.in_range(cf, 3) and q.in_range(cc, 3)):
        return q.SKIP
    user = {}
    if bc:
        user["backend"] = q.pick([None, "slurm", "sge"], bc)
    if vc:
        user["verbose"] = q.pick([None, "debug", "error", "loud"], vc)
    if cc:
        user["no_color"] = (cc == 1)
    w = vfs.VFS()
    w.add(ROOT + "/workflow.py", 1, "#")
    w.add(CONF, 1, json.dumps(user))
    vfs.install(w)
    levels = []
    real = (os.getcwd, cli_mod.configure_logging, cli_mod.guess_backend, click._compat.isatty, os.environ.get("NO_COLOR"))
    try:
        os.getcwd = lambda: ROOT
        cli_mod.configure_logging = lambda level_name, handler=None: levels.append(level_name) or "H"
        cli_mod.guess_backend = lambda: (0, "local")
        if ce:
            os.environ["NO_COLOR"] = "1"
        else:
            os.environ.pop("NO_COLOR", None)
        ctx = types.SimpleNamespace(obj=None)
        fn = cli_mod.main.callback
        fn = getattr(fn, "__wrapped__", fn)
        flag_b = q.pick([None, "slurm", "sge"], bf)
        flag_v = q.pick([None, "debug", "error"], vf)
        flag_c = q.pick([None, True, False], cf)
        fn(ctx, "workflow.py:gwf", flag_b, flag_v, flag_c)
        want_b = flag_b or user.get("backend") or "local"
        if ctx.obj.backend != want_b:
            return "backend %r, expected %r (flag %r, config %r)" % (ctx.obj.backend, want_b, flag_b, user.get("backend"))
        cfg_v = user.get("verbose") if user.get("verbose") in ("debug", "error", "info", "warning") else None
        want_v = flag_v or cfg_v or "info"
        if not levels or levels[-1] != want_v:
            return "verbosity %r, expected %r (flag %r, config %r)" % (levels, want_v, flag_v, user.get("verbose"))
        want_nc = flag_c if flag_c is not None else (user["no_color"] if "no_color" in user else bool(ce))
        got_nc = click._compat.isatty is not real[3]
        if got_nc != want_nc:
            return "colours disabled=%s, expected %s (flag %r, config %r, NO_COLOR %s)" % (got_nc, want_nc, flag_c, user.get("no_color"), ce)
        return ""
    finally:
        os.getcwd, cli_mod.configure_logging, cli_mod.guess_backend = real[0], real[1], real[2]
        click._compat.isatty = real[3]
        if real[4] is None:
            os.environ.pop("NO_COLOR", None)
        else:
            os.environ["NO_COLOR"] = real[4]
        vfs.uninstall()


def q20p(bf: int, bc: int, vf: int, vc: int, cf: int, cc: int, ce: bool) -> str:
    """
    post: _ == ""
    """
    return q.run(_q20p, (bf, bc, vf, vc, cf, cc, ce))


# ---------------------------------------------------------------- Q20r the selected backend's settings - and only those - reach it
def _q20r(be, lm, acct, foreign, port, late):
    if not (q.in_range(be, 2) and q.in_range(lm, 4) and q.in_range(acct, 3) and q.in_range(foreign, 5) and q.in_range(port, 3) and q.in_range(late, 3)):
        return q.SKIP
    if be == 0 and late != 0:
        return q.SKIP
    late = q.pick([0, 1, 2], late)
    name = q.pick(["slurm", "local"], be)
    user = {}
    log_mode = q.pick([None, "full", "merged", "none"], lm)
    if log_mode is not None:
        user["backend.slurm.log_mode"] = log_mode
    if acct:
        user["backend.slurm.accounting_enabled"] = (acct == 1)
    p = q.pick([None, 4242, 12345], port)
    if p is not None:
        user["backend.local.port"] = p
        user["backend.local.host"] = "pool.example"
    fk = q.pick([None, "backend.sge.queue", "backend.slurmx.log_mode", "backend.slurm_old.log_mode", "backendx.slurm.log_mode"], foreign)
    if fk is not None:
        user[fk] = "zzz"
    with q.notrace():
        w = World(name)
        w.target("A", [], ["a"])
    w.vfs.add(CONF, 1, json.dumps(user))
    w.vfs.add(w.tracked_path(), 1, json.dumps({"A": "55" if name == "slurm" else 55}))
    abst.add_tracked_job(w, "A", "55" if name == "slurm" else 55, "running")
    if name == "local":
        w.pool.refuse_first = late          # the workers come up while gwf is already trying to connect
    w.install()
    try:
        ctx = w.ctx()
        backend = create_backend(name, working_dir=ROOT, config=ctx.config)
        if name == "slurm":
            want_lm = log_mode or "full"
            if backend.ops.log_mode != want_lm:
                return "slurm log_mode %r, configured %r" % (backend.ops.log_mode, want_lm)
            used_sacct = any(e == "sacct" for e, a, i in w.sim.log)
            want_acct = True if acct == 0 else (acct == 1)
            if used_sacct != want_acct:
                return "sacct consulted=%s, accounting_enabled=%s" % (used_sacct, want_acct)
        else:
            want_addr = ("pool.example", p) if p is not None else ("localhost", 12345)
            if tuple(w.pool.last_addr) != want_addr:
                return "client connected to %r, configured %r (after %d refused attempts)" % (w.pool.last_addr, want_addr, late)
            if any(a != want_addr for a in w.pool.attempts):
                return "connection attempts went to %r, configured %r" % (w.pool.attempts, want_addr)
        return ""
    finally:
        w.uninstall()


def q20r(be: int, lm: int, acct: int, foreign: int, port: int, late: int) -> str:
    """
    post: _ == ""
    """
    return q.run(_q20r, (be, lm, acct, foreign, port, late))


QUERIES = [
    {"name": "E2ns", "fn": ns_replay, "smt": lambda shard: kernels.namespace_prefix(), "smt_samples": [["backend.slurm", k] for k in NS_KEYS], "shards": [{}], "timeout": 120,
     "bound": "unbounded strings (|ns| <= 24, |key| <= 40 stated to the solver): prefix test and slice of get_namespace read from the AST = 'key = ns + \".\" + rest -> rest'; z3 5.1, z3 4.8.12, cvc5 must all answer unsat"},
    {"name": "Q20n", "fn": q20n, "shards": [{}], "timeout": 300, "bound": "key = catalogue prefix %r + two suffix pieces from %r; namespace backend.slurm" % (NS_KEYS, SUFFIX)},
    {"name": "Q20a", "fn": q20a, "shards": [{}], "timeout": 900, "bound": "value catalogue %r x key catalogue %r; set in one invocation, get in the next" % (VALUES, KEYS)},
    {"name": "Q20b", "fn": q20b, "shards": [{"op": 0, "ki": 0}, {"op": 0, "ki": 1}, {"op": 0, "ki": 2}, {"op": 1}, {"op": 2}], "timeout": {"quick": 900, "thorough": 1800},
     "bound": "arbitrary user map over 3 keys incl. one with a default and two sharing a prefix (each absent, text or int; the addressed key also True/False/0/1) plus two fixed bystander keys; one step of set (9 values incl. '1','0','yes','no') / unset / get on any of the 3"},
    {"name": "Q20p", "fn": q20p, "shards": [{"bf": 0}, {"bf": 1}, {"bf": 2}], "timeout": 900, "bound": "every combination of flag / config / default for backend (3x3), verbosity (3x4 incl. an invalid configured level), colour (3x3x NO_COLOR)"},
    {"name": "Q20r", "fn": q20r, "shards": [{}], "timeout": 900, "bound": "slurm and local backends; log_mode (4), accounting switch (3), host/port (3), one foreign key from 5; local: the pool accepts the 1st, 2nd or 3rd connection attempt (back-off sleep stubbed)"},
]


# ---------------------------------------------------------------- Q20q  flags of one invocation never end up in the project configuration
def _q20q(bf, vf_, cf, op, ki, pre_b):
    """cli.main with any combination of -b / -v / --no-color flags builds the Context; then the real
    `config set` / `config unset` body runs on that Context.  The file must change in that key only."""
    if "bf" in q.SHARD and bf != q.SHARD["bf"]:
        return q.SKIP
    if not (q.in_range(bf, 3) and q.in_range(vf_, 3) and q.in_range(cf, 3) and q.in_range(op, 2) and q.in_range(ki, 3) and q.in_range(pre_b, 3)):
        return q.SKIP
    user = {"user.key": "keep"}
    pb = q.pick([None, "slurm", "lsf"], pre_b)
    if pb is not None:
        user["backend"] = pb
    w = vfs.VFS()
    if q.SHARD.get("linked"):
        # workflow.py is a symbolic link to a workflow kept elsewhere: the configuration still lives next to the link
        w.add("/vfs/shared/flows/workflow.py", 1, "#")
        w.links[ROOT + "/workflow.py"] = "/vfs/shared/flows/workflow.py"
    else:
        w.add(ROOT + "/workflow.py", 1, "#")
    w.add(CONF, 1, json.dumps(user))
    vfs.install(w)
    real = (os.getcwd, cli_mod.configure_logging, cli_mod.guess_backend, click._compat.isatty)
    try:
        os.getcwd = lambda: ROOT
        cli_mod.configure_logging = lambda level_name, handler=None: "H"
        cli_mod.guess_backend = lambda: (0, "local")
        ctx = types.SimpleNamespace(obj=None)
        fn = cli_mod.main.callback
        fn = getattr(fn, "__wrapped__", fn)
        fn(ctx, "workflow.py:gwf", q.pick([None, "sge", "local"], bf), q.pick([None, "debug", "error"], vf_), q.pick([None, True, False], cf))
        from gwf.plugins import config as config_mod
        from vf.world.cmds import raw
        k = q.pick(["other.key", "verbose", "backend.slurm.log_mode"], ki)
        model = dict(user)
        if op == 0:
            raw(config_mod.set)(ctx.obj, k, "v1")
            model[k] = "v1"
        else:
            raw(config_mod.unset)(ctx.obj, k)
            model.pop(k, None)
        stray = [f for f in w.files if f.endswith(".gwfconf.json") and f != CONF]
        if stray:
            return "a configuration file was written away from the workflow file: %s" % stray
        after = json.loads(w.files[CONF][1])
        if after != model:
            return "flags (backend %s, verbose %s, colour %s) then config %s %s: file holds %s, expected %s" % (
                [None, "sge", "local"][bf], [None, "debug", "error"][vf_], [None, True, False][cf], ["set", "unset"][op], k, after, model)
        return ""
    finally:
        os.getcwd, cli_mod.configure_logging, cli_mod.guess_backend = real[0], real[1], real[2]
        click._compat.isatty = real[3]
        vfs.uninstall()


def q20q(bf: int, vf_: int, cf: int, op: int, ki: int, pre_b: int) -> str:
    """
    post: _ == ""
    """
    return q.run(_q20q, (bf, vf_, cf, op, ki, pre_b))


QUERIES.append(
    {"name": "Q20q", "fn": q20q, "shards": [{"bf": 0}, {"bf": 1}, {"bf": 2}, {"bf": 0, "linked": True}], "timeout": 900,
     "bound": "cli.main with every combination of -b (3) / -v (3) / colour (3) flags, stored backend absent or one of two, followed by config set / unset of one of 3 keys on the Context main built: the file next to the workflow file (also when that is a symbolic link to a shared workflow) changes in that key only"})
