"""Modification times with sub-second resolution for the make-semantics queries.

gwf only orders modification times (st_mtime is a float in reality).  Plain symbolic ints cover
the ordering; SubSec(n) stands for n quarter-seconds and behaves like a real number under
comparison, while int() truncates to whole seconds - so code that rounds timestamps before
comparing them (a realistic "NFS granularity" change) is distinguishable from code that does not."""


class SubSec:
    __slots__ = ("n",)

    def __init__(self, n):
        self.n = n

    def _other(self, o):
        if isinstance(o, SubSec):
            return o.n
        if isinstance(o, float):
            if o == float("inf"):
                return None, 1
            if o == float("-inf"):
                return None, -1
            return int(o * 4)
        return o * 4

    def __lt__(self, o):
        v = self._other(o)
        if isinstance(v, tuple):
            return v[1] > 0
        return self.n < v

    def __le__(self, o):
        v = self._other(o)
        if isinstance(v, tuple):
            return v[1] > 0
        return self.n <= v

    def __gt__(self, o):
        v = self._other(o)
        if isinstance(v, tuple):
            return v[1] < 0
        return self.n > v

    def __ge__(self, o):
        v = self._other(o)
        if isinstance(v, tuple):
            return v[1] < 0
        return self.n >= v

    def __eq__(self, o):
        v = self._other(o)
        if isinstance(v, tuple):
            return False
        return self.n == v

    def __ne__(self, o):
        return not self.__eq__(o)

    def __hash__(self):
        return 0

    def __int__(self):
        return self.n // 4

    def __float__(self):
        return self.n / 4

    def __trunc__(self):
        return self.n // 4

    def __floor__(self):
        return self.n // 4

    def __round__(self, nd=None):
        return (self.n + 2) // 4

    def __repr__(self):
        return "SubSec(%r/4 s)" % (self.n,)


def _install_int_patch():
    """CrossHair intercepts int() and hands custom objects to the C-level int(), which insists that
    __int__ returns a real int.  Teach the interception about SubSec (tracing only; untraced runs use
    the plain protocol and concrete ints)."""
    try:
        import crosshair.core_and_libs  # noqa: F401  (registers the library patches first)
        from crosshair import core
    except Exception:
        return
    orig = core._PATCH_REGISTRATIONS.get(int)
    if orig is None or getattr(orig, "_vf_subsec", False):
        return

    def patched_int(val=0, *a, **kw):
        if type(val) is SubSec:
            return val.n // 4
        return orig(val, *a, **kw)
    patched_int._vf_subsec = True
    core._PATCH_REGISTRATIONS[int] = patched_int


_install_int_patch()
