"""Small projects for the command-level queries: a DAG of targets over the VFS, with helpers to
put symbolic file states and earlier jobs into the world and to read the oracle inputs back."""
import json

from vf.oracles import plan as P
from vf.world import abst
from vf.world.cmds import ROOT, World

from gwf.core import hash_spec

# name -> list of (target, inputs, outputs); deps derived from shared files
SHAPES = {
    "chain2": [("A", ["src"], ["a"]), ("B", ["a"], ["b"])],
    "chain3": [("A", ["src"], ["a"]), ("B", ["a"], ["b"]), ("C", ["b"], ["c"])],
    "fork3": [("A", ["src"], ["a"]), ("B", ["a"], ["b"]), ("C", ["a"], ["c"])],
    "join3": [("A", ["src"], ["a"]), ("B", ["src2"], ["b"]), ("C", ["a", "b"], ["c"])],
    "diamond4": [("A", ["src"], ["a"]), ("B", ["a"], ["b"]), ("C", ["a"], ["c"]), ("D", ["b", "c"], ["d"])],
    "two-ends": [("A", ["src"], ["a"]), ("B", ["a"], ["b"]), ("C", ["a"], ["c"]), ("E", ["src2"], ["e"])],
    # A declares a directory as its output; B's protected output, the endpoint C's output and a stray file live inside it
    "dir-output": [("A", ["src"], ["work"]), ("B", ["src"], ["work/b"]), ("C", ["work/b"], ["work/c"])],
    "chain2+sink": [("A", ["src"], ["a"]), ("B", ["a"], ["b"]), ("N", ["b"], [])],
    # a shortcut edge (T needs R directly and through M) with names such that the middle target sorts before the root
    "tri-rev": [("R", ["src"], ["r"]), ("M", ["r"], ["m"]), ("T", ["r", "m"], ["t"])],
    # an intermediate file whose name is in decomposed (NFD) form: the job creates exactly that name
    "chain2u": [("A", ["src"], ["cafe\u0301.txt"]), ("B", ["cafe\u0301.txt"], ["b"])],
    # B writes two files, the name of one being a string prefix of the other
    "chain3x": [("A", ["src"], ["a"]), ("B", ["a"], ["b", "b.idx"]), ("C", ["b"], ["c"])],
    # names that differ only where one has a dot
    "dotted": [("A.x", ["src"], ["a"]), ("A_x", ["src"], ["b"]), ("Axx", ["a"], ["c"])],
}
SOURCES = ["src", "src2"]


class Project:
    WF_CACHE = {}

    def __init__(self, shape, backend="slurm", hashing=False, extra_config=None, reuse_targets=False):
        """reuse_targets: keep one Workflow/Target object set per shape for the whole process, so that
        hash-ordered sets of targets iterate in the same order on every path (Target hashes by identity)."""
        self.shape = shape
        self.spec = SHAPES[shape]
        self.names = [t[0] for t in self.spec]
        self.n = len(self.spec)
        self.w = World(backend)
        cached = Project.WF_CACHE.get(shape) if reuse_targets else None
        if cached is not None:
            self.w.wf = cached
        cfg = dict(extra_config or {})
        if hashing:
            cfg["use_spec_hashes"] = True
        if cfg:
            self.w.vfs.add(ROOT + "/.gwfconf.json", 1, json.dumps(cfg))
        self.hashing = hashing
        self.targets = {}
        for name, ins, outs in self.spec:
            if cached is not None:
                t = cached.targets[name]
                t.spec = "make " + name
                t.protect = set()
                self.w._opts[name] = {}
                self.targets[name] = t
            else:
                self.targets[name] = self.w.target(name, ins, outs)
        if reuse_targets and cached is None:
            Project.WF_CACHE[shape] = self.w.wf
        producers = {}
        for i, (name, ins, outs) in enumerate(self.spec):
            for o in outs:
                producers[o] = i
        self.deps = [sorted(set(producers[f] for f in ins if f in producers)) for name, ins, outs in self.spec]
        self.sources = sorted(set(f for name, ins, outs in self.spec for f in ins if f not in producers))
        self.outputs = [list(outs) for name, ins, outs in self.spec]
        self.inputs = [list(ins) for name, ins, outs in self.spec]
        self.tracked = {}

    def idx(self, name):
        return self.names.index(name)

    def add_sources(self, mtime=5):
        for s in self.sources:
            self.w.file(s, mtime, "source " + s)

    def add_tracked(self, name, jid, abstract):
        """A job from an earlier invocation."""
        if self.w.backend == "local":
            jid = int(jid)
        self.tracked[name] = jid
        abst.add_tracked_job(self.w, name, jid, abstract)

    def write_tracked(self):
        if self.tracked:
            self.w.vfs.add(self.w.tracked_path(), 1, json.dumps(self.tracked))

    def write_hashes(self, records):
        self.w.vfs.add(self.w.hashes_path(), 1, json.dumps(records))

    def current_hash(self, name):
        return hash_spec(self.targets[name].spec)

    def read_json(self, path):
        f = self.w.vfs.files.get(path)
        return json.loads(f[1]) if f is not None else {}

    def requested(self, patterns):
        import fnmatch
        if not patterns:
            return P.endpoints(self.n, self.deps)
        return [i for i in range(self.n) if any(fnmatch.fnmatchcase(self.names[i], p) for p in patterns)]

    def mtime(self, rel):
        f = self.w.vfs.files.get(ROOT + "/" + rel)
        return None if f is None else f[0]

    def stale_by_files(self, i):
        """Make-spec on the current VFS for target i (inputs are assumed to exist)."""
        outs = self.outputs[i]
        if not outs:
            return True
        mo = []
        for o in outs:
            m = self.mtime(o)
            if m is None:
                return True
            mo.append(m)
        for f in self.inputs[i]:
            m = self.mtime(f)
            if m is None:
                return True
            for x in mo:
                if m > x:
                    return True
        return False
