"""Abstract job states shared by the command-level queries, and how each simulator realises them.

abstract: "none" (never submitted), "pending", "running", "done" (finished successfully),
          "failed", "cancelled"
For each backend: what the simulator shows, and the backend state gwf must derive from it
(index into vf.oracles.plan: 0 UNKNOWN 1 SUBMITTED 2 RUNNING 3 COMPLETED 4 FAILED 5 CANCELLED)
according to the statement of C08: queued -> submitted, executing -> running, failure -> failed,
cancellation -> cancelled, success or no record -> file-based decision (UNKNOWN/COMPLETED).
SGE keeps no record of finished jobs (qstat only lists live ones): done/failed/cancelled all
become "no record".  LSF reports a killed job as EXIT (failure class).
"""
from vf.oracles import plan as P

ABSTRACT = ["none", "pending", "running", "done", "failed", "cancelled"]

EXPECT = {
    "slurm": {"none": P.B_UNKNOWN, "pending": P.B_SUBMITTED, "running": P.B_RUNNING, "done": P.B_COMPLETED, "failed": P.B_FAILED, "cancelled": P.B_CANCELLED},
    "sge": {"none": P.B_UNKNOWN, "pending": P.B_SUBMITTED, "running": P.B_RUNNING, "done": P.B_UNKNOWN, "failed": P.B_UNKNOWN, "cancelled": P.B_UNKNOWN},
    "lsf": {"none": P.B_UNKNOWN, "pending": P.B_SUBMITTED, "running": P.B_RUNNING, "done": P.B_COMPLETED, "failed": P.B_FAILED, "cancelled": P.B_FAILED},
    "local": {"none": P.B_UNKNOWN, "pending": P.B_SUBMITTED, "running": P.B_RUNNING, "done": P.B_COMPLETED, "failed": P.B_FAILED, "cancelled": P.B_CANCELLED},
}

SIMCODE = {
    "slurm": {"pending": "PD", "running": "R", "done": "CD", "failed": "F", "cancelled": "CA"},
    "sge": {"pending": "qw", "running": "r", "done": None, "failed": None, "cancelled": None},
    "lsf": {"pending": "PEND", "running": "RUN", "done": "DONE", "failed": "EXIT", "cancelled": "EXIT"},
    "local": {"pending": "SUBMITTED", "running": "RUNNING", "done": "COMPLETED", "failed": "FAILED", "cancelled": "CANCELLED"},
}


def set_state(world, jid, abstract):
    """Put job `jid` of the world's simulator into the abstract state."""
    be = world.backend
    if be == "local":
        world.pool.tasks[jid]["state"] = SIMCODE[be][abstract]
        return
    job = world.sim.jobs[jid]
    code = SIMCODE[be][abstract]
    if code is None:
        job.in_queue = False
        job.state = "gone"
    else:
        job.state = code
        job.in_queue = abstract in ("pending", "running") if be != "lsf" else True


def add_tracked_job(world, name, jid, abstract):
    """A job submitted by an earlier invocation: present in the simulator and in the tracked file."""
    be = world.backend
    if be == "local":
        world.pool.tasks[jid] = {"name": name, "deps": [], "state": "SUBMITTED", "script": "", "working_dir": ""}
        world.pool.order.append(jid)
        if jid >= world.pool.next:
            world.pool.next = jid + 1
    else:
        world.sim.add_job(jid, name, "?", in_queue=True)
    set_state(world, jid, abstract)


def jobs_by_cmd(world):
    """Jobs/tasks created by submit commands of gwf, in submission order:
    list of dict(id, name, deps, kind)."""
    if world.backend == "local":
        out = []
        for tid in world.pool.order:
            t = world.pool.tasks[tid]
            if t.get("script", "") != "" or t.get("working_dir", "") != "":
                out.append({"id": tid, "name": t["name"], "deps": list(t["deps"]), "kind": "local"})
        return out
    return [{"id": j.id, "name": j.name, "deps": list(j.deps), "kind": j.dep_kind} for j in world.sim.submitted()]


NEVER_RELEASE_KIND = {"slurm": "afterok", "lsf": "done", "local": "local", "sge": "hold"}
