"""In-memory file system + low-level interposition.

Every path under ROOT ("/vfs") is virtual; everything else goes to the real function
(CrossHair, the import system and the interpreter need the real ones).  The model:
  * flat map path -> [mtime, content]; directories are implicit (every prefix of a file
    path exists as a directory, plus the explicit `dirs` set);
  * open(..., 'w') truncates at open time, then appends per write() call (so a crash between
    two write() calls of one json.dump leaves a torn file);
  * stat of a missing path raises FileNotFoundError;
  * every mutating primitive (open-for-write, each write(), remove, utime/touch, mkdir) is one
    *operation*; `crash_at = k` makes the k-th operation raise Crash (a BaseException, i.e.
    SIGKILL as seen from Python) and freezes the world: later mutations have no effect.
"""
import builtins
import io
import os
import pathlib
import stat as statmod

ROOT = "/vfs"


class Crash(BaseException):
    """The process was killed at this operation."""


class VFS:
    def __init__(self):
        self.files = {}
        self.links = {}        # symbolic links: path -> target path (absolute)
        self.link_mtime = {}   # the link's own (lstat) modification time; default 1
        self.locale_encoding = None   # "ascii": text files opened without an explicit encoding use the C locale's codec (strict)
        self.cwd = None        # virtual current directory (absolute, below ROOT): relative paths resolve against it and os.getcwd returns it
        self.dirs = {ROOT}
        self.clock = 1000
        self.ops = 0
        self.crash_at = None
        self.frozen = False
        self.log = []          # (op, path)
        self.stat_calls = {}   # path -> number of os.stat calls
        self.time_source = None  # callable returning the mtime for the next mutation
        self.stat_hook = None    # adversarial stat: callable(path, nth_call) -> mtime or None
        self.fail_write = None   # callable(path) -> bool: open-for-write raises OSError

    # -- helpers
    def now(self):
        if self.time_source is not None:
            self.clock = self.time_source(self.clock)
        return self.clock

    def tick(self, op, path):
        """Return True if the mutation may proceed."""
        if self.frozen:
            return False
        self.ops += 1
        if self.crash_at is not None and self.ops == self.crash_at:
            self.frozen = True
            self.log.append(("CRASH", path))
            raise Crash("killed at operation %d (%s %s)" % (self.ops, op, path))
        self.log.append((op, path))
        return True

    def add(self, path, mtime, content=""):
        self.files[path] = [mtime, content]

    def is_dir(self, p):
        if p in self.dirs:
            return True
        pre = p.rstrip("/") + "/"
        for f in self.files:
            if f.startswith(pre):
                return True
        for d in self.dirs:
            if d.startswith(pre):
                return True
        return False

    def snapshot(self):
        snap = {k: (v[0], v[1]) for k, v in self.files.items()}
        for k, v in self.links.items():
            snap[k] = ("link", v)
        return snap


V = None   # the current world (set by install())

REAL = {}


def virt(p):
    try:
        p = os.fspath(p)
    except TypeError:
        return None
    if isinstance(p, bytes):
        return None
    if V is not None and V.cwd is not None and isinstance(p, str) and not p.startswith("/"):
        p = V.cwd + "/" + p
    if isinstance(p, str) and (p == ROOT or p.startswith(ROOT + "/")):
        vp = os.path.normpath(p)
        if V is not None and V.links:
            vp = _resolve_parents(vp)
        return vp
    return None


def _resolve_parents(vp):
    """A path below a directory that is a symbolic link refers to the file below the link's destination
    (the last component is left alone: lstat/readlink/remove act on a link itself)."""
    for _ in range(8):
        parts = vp.split("/")
        hit = None
        for i in range(2, len(parts)):
            pre = "/".join(parts[:i])
            if pre in V.links:
                hit = (pre, i)
                break
        if hit is None:
            return vp
        vp = os.path.normpath(V.links[hit[0]] + "/" + "/".join(parts[hit[1]:]))
    return vp


def _stat_result(mode, size, mtime):
    return os.stat_result((mode, 0, 0, 1, 0, 0, size, mtime, mtime, mtime))


def _resolve(vp):
    hops = 0
    while vp in V.links and hops < 8:
        vp = V.links[vp]
        hops += 1
    return vp


def f_stat(p, *a, **k):
    vp = virt(p)
    if vp is None or V is None:
        return REAL["stat"](p, *a, **k)
    if k.get("follow_symlinks", True) is False:
        return f_lstat(p)
    hops = 0
    while vp in V.links and hops < 8:
        vp = V.links[vp]
        hops += 1
    n = V.stat_calls.get(vp, 0) + 1
    V.stat_calls[vp] = n
    if vp in V.files:
        mt = V.files[vp][0]
        if V.stat_hook is not None:
            h = V.stat_hook(vp, n)
            if h is not None:
                mt = h
        return _stat_result(0o100644, len(V.files[vp][1]), mt)
    if V.is_dir(vp):
        return _stat_result(0o040755, 0, 0)
    raise FileNotFoundError(2, "No such file or directory (vfs)", vp)


def _effective_encoding(a, k):
    enc = k.get("encoding")
    if enc is None and len(a) >= 2:
        enc = a[1]
    if enc is None and V is not None:
        enc = V.locale_encoding
    return enc


def _is_ascii_codec(enc):
    return enc is not None and str(enc).lower().replace("-", "").replace("_", "") in ("ascii", "usascii", "ansix3.41968", "646")


class _WFile:
    def __init__(self, path, binary, encoding=None):
        self.path = path
        self.binary = binary
        self.closed = False
        self.encoding = encoding

    def write(self, data):
        if not self.binary and _is_ascii_codec(self.encoding) and isinstance(data, str):
            data.encode("ascii")          # raises UnicodeEncodeError as the real text layer would
        if V.tick("write", self.path):
            cur = V.files.get(self.path)
            if cur is not None:
                if self.binary:
                    data = data.decode("utf-8", "replace") if isinstance(data, (bytes, bytearray)) else data
                cur[1] = cur[1] + data
        return len(data)

    def flush(self):
        pass

    def close(self):
        self.closed = True

    def __enter__(self):
        return self

    def __exit__(self, *exc):
        self.close()
        return False

    def writable(self):
        return True

    def read(self, *a):
        return "" if not self.binary else b""

    def seek(self, *a):
        return 0


def f_open(p, mode="r", *a, **k):
    vp = virt(p)
    if vp is None or V is None:
        return REAL["open"](p, mode, *a, **k)
    if vp in V.links and "x" not in mode:
        vp = _resolve(vp)
    binary = "b" in mode
    if "w" in mode or "a" in mode or "x" in mode:
        if V.fail_write is not None and V.fail_write(vp):
            raise OSError(28, "No space left on device (vfs)", vp)
        parent = os.path.dirname(vp)
        if not V.is_dir(parent):
            raise FileNotFoundError(2, "No such file or directory (vfs)", vp)
        if "x" in mode and (vp in V.files or vp in V.links or V.is_dir(vp)):
            raise FileExistsError(17, "File exists (vfs)", vp)
        if V.tick("open-w", vp):
            if "a" in mode and vp in V.files:
                V.files[vp][0] = V.now()
            else:
                V.files[vp] = [V.now(), ""]
        return _WFile(vp, binary, None if binary else _effective_encoding(a, k))
    if vp not in V.files:
        if V.is_dir(vp):
            raise IsADirectoryError(21, "Is a directory (vfs)", vp)
        raise FileNotFoundError(2, "No such file or directory (vfs)", vp)
    content = V.files[vp][1]
    if binary:
        return io.BytesIO(content.encode("utf-8"))
    if _is_ascii_codec(_effective_encoding(a, k)):
        content.encode("utf-8").decode("ascii")       # raises UnicodeDecodeError if the file holds non-ASCII bytes
    return io.StringIO(content)


def f_listdir(p="."):
    vp = virt(p)
    if vp is None or V is None:
        return REAL["listdir"](p)
    if not V.is_dir(vp):
        raise FileNotFoundError(2, "No such file or directory (vfs)", vp)
    pre = vp.rstrip("/") + "/"
    names = set()
    for f in list(V.files) + list(V.dirs) + list(V.links):
        if f.startswith(pre):
            names.add(f[len(pre):].split("/")[0])
    return sorted(names)


def f_remove(p, *a, **k):
    vp = virt(p)
    if vp is None or V is None:
        return REAL["remove"](p, *a, **k)
    if V.frozen:
        return None
    if vp in V.links:
        if V.tick("remove", vp):
            del V.links[vp]
        return None
    if vp not in V.files:
        if V.is_dir(vp):
            raise IsADirectoryError(21, "Is a directory (vfs)", vp)
        raise FileNotFoundError(2, "No such file or directory (vfs)", vp)
    if V.tick("remove", vp):
        del V.files[vp]


def f_utime(p, times=None, *a, **k):
    vp = virt(p)
    if vp is None or V is None:
        return REAL["utime"](p, times, *a, **k)
    if vp in V.links:
        if k.get("follow_symlinks", True) is False:
            if V.tick("utime", vp):
                V.link_mtime[vp] = V.now() if times is None else times[1]      # the link's own time; the file it refers to is untouched
            return None
        vp = _resolve(vp)
    if vp not in V.files:
        if V.is_dir(vp):
            return None
        raise FileNotFoundError(2, "No such file or directory (vfs)", vp)
    if V.tick("utime", vp):
        V.files[vp][0] = V.now() if times is None else times[1]


def f_touch(self, mode=0o666, exist_ok=True):
    vp = virt(self)
    if vp is None or V is None:
        return REAL["touch"](self, mode, exist_ok)
    if vp in V.links:
        vp = _resolve(vp)             # open(..., O_CREAT) and utime follow a link (a dangling one gets its destination created)
    if vp in V.files:
        if not exist_ok:
            raise FileExistsError(17, "File exists (vfs)", vp)
        if V.tick("utime", vp):
            V.files[vp][0] = V.now()
        return None
    if not V.is_dir(os.path.dirname(vp)):
        raise FileNotFoundError(2, "No such file or directory (vfs)", vp)
    if V.tick("create", vp):
        V.files[vp] = [V.now(), ""]


def f_mkdir(p, mode=0o777, *a, **k):
    vp = virt(p)
    if vp is None or V is None:
        return REAL["mkdir"](p, mode, *a, **k)
    if vp in V.files or V.is_dir(vp):
        raise FileExistsError(17, "File exists (vfs)", vp)
    if not V.is_dir(os.path.dirname(vp)):
        raise FileNotFoundError(2, "No such file or directory (vfs)", vp)
    if V.tick("mkdir", vp):
        V.dirs.add(vp)


def f_makedirs(p, mode=0o777, exist_ok=False):
    vp = virt(p)
    if vp is None or V is None:
        return REAL["makedirs"](p, mode, exist_ok)
    if V.is_dir(vp):
        if not exist_ok:
            raise FileExistsError(17, "File exists (vfs)", vp)
        return
    if V.tick("mkdir", vp):
        V.dirs.add(vp)


def f_replace(src, dst, *a, **k):
    vs, vd = virt(src), virt(dst)
    if vs is None or vd is None or V is None:
        return REAL["replace"](src, dst, *a, **k)
    if V.frozen:
        return None           # the process is dead: nothing it "does" afterwards has any effect
    if vs not in V.files:
        raise FileNotFoundError(2, "No such file or directory (vfs)", vs)
    if V.tick("replace", vd):
        V.files[vd] = V.files.pop(vs)


class _DirEntry:
    def __init__(self, parent, name, isdir):
        self.name = name
        self.path = parent.rstrip("/") + "/" + name
        self._isdir = isdir

    def is_dir(self, follow_symlinks=True):
        if self.path in V.links:
            return follow_symlinks and V.is_dir(_resolve(self.path))
        return self._isdir

    def is_file(self, follow_symlinks=True):
        if self.path in V.links:
            return follow_symlinks and _resolve(self.path) in V.files
        return not self._isdir

    def is_symlink(self):
        return self.path in V.links

    def stat(self, follow_symlinks=True):
        return f_stat(self.path) if follow_symlinks else f_lstat(self.path)

    def inode(self):
        return 0

    def __fspath__(self):
        return self.path


class _ScanDir:
    def __init__(self, entries):
        self.entries = entries

    def __iter__(self):
        return iter(self.entries)

    def __enter__(self):
        return self

    def __exit__(self, *a):
        return False

    def close(self):
        pass


def f_scandir(p="."):
    vp = virt(p)
    if vp is None or V is None:
        return REAL["scandir"](p)
    names = f_listdir(vp)
    return _ScanDir([_DirEntry(vp, n, (vp.rstrip("/") + "/" + n) not in V.files) for n in names])


def f_lstat(p, *a, **k):
    vp = virt(p)
    if vp is None or V is None:
        return REAL["lstat"](p, *a, **k)
    if vp in V.links:
        return _stat_result(0o120777, len(V.links[vp]), V.link_mtime.get(vp, 1))
    return f_stat(p)


def f_readlink(p, *a, **k):
    vp = virt(p)
    if vp is None or V is None:
        return REAL["readlink"](p, *a, **k)
    if vp in V.links:
        return V.links[vp]
    raise OSError(22, "Invalid argument (vfs: not a symlink)", vp)


def f_rmtree(p, ignore_errors=False, onerror=None, **kw):
    vp = virt(p)
    if vp is None or V is None:
        return REAL["rmtree"](p, ignore_errors, onerror, **kw)
    if not V.is_dir(vp):
        if ignore_errors:
            return None
        raise NotADirectoryError(20, "Not a directory (vfs)", vp)
    pre = vp.rstrip("/") + "/"
    for f in [f for f in list(V.files) + list(V.links) if f.startswith(pre)]:
        if V.tick("remove", f):
            V.files.pop(f, None)
            V.links.pop(f, None)
    for d in [d for d in V.dirs if d == vp or d.startswith(pre)]:
        V.dirs.discard(d)


def f_rmdir(p, *a, **k):
    vp = virt(p)
    if vp is None or V is None:
        return REAL["rmdir"](p, *a, **k)
    if not V.is_dir(vp):
        raise FileNotFoundError(2, "No such file or directory (vfs)", vp)
    pre = vp.rstrip("/") + "/"
    if any(f.startswith(pre) for f in list(V.files) + list(V.links)):
        raise OSError(39, "Directory not empty (vfs)", vp)
    if V.tick("rmdir", vp):
        V.dirs.discard(vp)


def f_getcwd():
    if V is not None and V.cwd is not None:
        return V.cwd
    return REAL["getcwd"]()


def f_fsync(fd):
    if isinstance(fd, int):
        return REAL["fsync"](fd)
    return None


_INSTALLED = [False]


def install(world):
    """Install the interposition (idempotent) and make `world` current."""
    global V
    V = world
    if _INSTALLED[0]:
        return
    REAL.update(stat=os.stat, open=builtins.open, ioopen=io.open, listdir=os.listdir, remove=os.remove,
                unlink=os.unlink, utime=os.utime, touch=pathlib.Path.touch, mkdir=os.mkdir,
                makedirs=os.makedirs, replace=os.replace, rename=os.rename, fsync=os.fsync,
                scandir=os.scandir, lstat=os.lstat, readlink=os.readlink, rmtree=__import__('shutil').rmtree, rmdir=os.rmdir)
    REAL["getcwd"] = os.getcwd
    os.getcwd = f_getcwd
    os.stat = f_stat
    builtins.open = f_open
    io.open = f_open
    os.listdir = f_listdir
    os.remove = f_remove
    os.unlink = f_remove
    os.utime = f_utime
    pathlib.Path.touch = f_touch
    os.mkdir = f_mkdir
    os.makedirs = f_makedirs
    os.replace = f_replace
    os.rename = f_replace
    os.scandir = f_scandir
    os.lstat = f_lstat
    os.readlink = f_readlink
    os.rmdir = f_rmdir
    __import__('shutil').rmtree = f_rmtree
    _INSTALLED[0] = True


def uninstall():
    global V
    V = None
    if not _INSTALLED[0]:
        return
    os.stat = REAL["stat"]
    builtins.open = REAL["open"]
    io.open = REAL["ioopen"]
    os.listdir = REAL["listdir"]
    os.remove = REAL["remove"]
    os.unlink = REAL["unlink"]
    os.utime = REAL["utime"]
    pathlib.Path.touch = REAL["touch"]
    os.mkdir = REAL["mkdir"]
    os.makedirs = REAL["makedirs"]
    os.replace = REAL["replace"]
    os.rename = REAL["rename"]
    os.scandir = REAL["scandir"]
    os.lstat = REAL["lstat"]
    os.readlink = REAL["readlink"]
    if os.getcwd is f_getcwd:
        os.getcwd = REAL["getcwd"]
    os.rmdir = REAL["rmdir"]
    __import__('shutil').rmtree = REAL["rmtree"]
    _INSTALLED[0] = False
