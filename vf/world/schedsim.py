"""Scheduler simulators behind subprocess.Popen / shutil.which / socket.socket.

One `Sim` object is the cluster: a job table, a command log and optional fault injection.
Output formats are the documented ones for exactly the flags gwf passes (DESIGN.md section 2):
  sbatch --parsable            -> "<id>\\n"  (or "<id>;<cluster>\\n" on a multi-cluster setup)
  squeue --noheader --format=%i;%t --all   -> one "<id>;<code>" row per job in the live queue
  sacct --noheader --parsable2 --format=jobid,state --allocations --jobs a,b -> "<id>|<STATE>" rows
  scancel --verbose <id>       -> exit 0; "scancel: Terminating job <id>" and then "scancel: error: ..." on stderr if the job is unknown
  qsub -terse [-hold_jid a,b]  -> "<id>\\n";  qstat -f -xml -> <job_list> entries;  qdel <id>
  bsub [-w 'done(a) && done(b)'] -> "Job <id> is submitted to queue <q>.\\n"
  bjobs -noheader -o stat <id> -> "<STATE>\\n" or nothing;  bkill <id>
The dependency syntax is read by an independent reference reader (deps_of_*).
"""
import os
import re
import shutil
import socket
import subprocess
import json
import asyncio  # noqa: F401  (imported before socket.socket is interposed)

SLURM_LONG = {"PD": "PENDING", "R": "RUNNING", "F": "FAILED", "CA": "CANCELLED by 1000", "CD": "COMPLETED", "TO": "TIMEOUT",
              "NF": "NODE_FAIL", "OOM": "OUT_OF_MEMORY", "BF": "BOOT_FAIL", "DL": "DEADLINE", "PR": "PREEMPTED", "RQ": "REQUEUED",
              "RS": "RESIZING", "RV": "REVOKED", "S": "SUSPENDED"}
SLURM_LIVE = ("PD", "R", "CF", "CG", "RD", "RF", "RH", "RQ", "RS", "SE", "SI", "SO", "ST", "S")

EXES = {"slurm": ("sbatch", "squeue", "sacct", "scancel", "sinfo"), "sge": ("qsub", "qstat", "qdel"), "lsf": ("bsub", "bjobs", "bkill")}


class Job:
    def __init__(self, jid, name, state, deps, dep_kind, script, argv):
        self.id = jid
        self.name = name
        self.state = state        # scheduler-specific code
        self.deps = deps          # list of ids as parsed by the reference reader
        self.dep_kind = dep_kind  # "afterok" / "hold" / "done" / None or "?<text>" when not understood
        self.script = script
        self.argv = argv
        self.in_queue = True      # visible in the live queue (squeue / qstat / bjobs)
        self.acct = None          # slurm: accounting row override (None = derived from state)
        self.by_cmd = True        # created by a submit command (False: pre-existing job put there by the query)


class Sim:
    def __init__(self, kind, first_id=100):
        self.kind = kind
        self.jobs = {}
        self.order = []
        self.next_id = first_id
        self.log = []             # (exe, tuple(args), input)
        self.ncmd = 0
        self.fault_at = None      # the k-th command (1-based) ...
        self.fault_kind = 0       # 0 non-zero exit, 1 'error:' on stderr with exit 0, 2 garbage on stdout, 3 correct answer that arrives late
        self.answer_is_late = False
        self.fault_only = None    # restrict fault counting to these executables
        self.foreign = []         # [(id, code)] jobs of other users in the live queue
        self.multi_cluster = False
        self.acct_lag = {}        # slurm: id -> stale accounting state (long name) overriding the truth
        self.tick = None          # optional callable(op): crash-point hook shared with the VFS

    # ---- job table helpers
    def add_job(self, jid, name, state, in_queue=True, deps=(), dep_kind=None):
        j = Job(jid, name, state, list(deps), dep_kind, "", ())
        j.in_queue = in_queue
        j.by_cmd = False
        self.jobs[jid] = j
        self.order.append(jid)
        return j

    def submitted(self):
        return [self.jobs[i] for i in self.order if self.jobs[i].by_cmd]

    def mutating_log(self):
        return [(e, a) for e, a, _ in self.log if e in ("sbatch", "scancel", "qsub", "qdel", "bsub", "bkill")]

    # ---- command dispatch
    def run(self, exe, args, inp):
        """Returns (returncode, stdout, stderr)."""
        self.log.append((exe, tuple(args), inp))
        if self.fault_only is None or exe in self.fault_only:
            self.ncmd += 1
            if self.fault_at is not None and self.ncmd == self.fault_at:
                if self.fault_kind == 0:
                    return 1, "", exe + ": failed (injected, exit status 1)\n"
                if self.fault_kind == 3:
                    # the command is carried out, but its answer arrives late (a busy controller): whoever waits long enough gets it
                    self.answer_is_late = True
                    return getattr(self, "cmd_" + exe)(args, inp)
                if self.fault_kind == 1:
                    # (scancel --verbose announces the job before it reports that the request failed)
                    return 0, "", ("scancel: Terminating job %s\n" % args[-1] if exe == "scancel" else "") + exe + ": error: injected failure\n"
                return 0, "%%garbage%%\n", ""
        if self.tick is not None:
            self.tick(exe)                    # the process may be killed before the command reaches the scheduler ...
        res = getattr(self, "cmd_" + exe)(args, inp)
        if self.tick is not None:
            self.tick("post-" + exe)          # ... or after the scheduler acted but before gwf saw the answer
        return res

    def _new_id(self):
        jid = str(self.next_id)
        self.next_id += 1
        return jid

    # ---- Slurm
    def cmd_sbatch(self, args, inp):
        deps, kind = deps_of_sbatch(args)
        name = None
        for line in (inp or "").splitlines():
            m = re.match(r"#SBATCH --job-name=(.*)$", line)
            if m:
                name = m.group(1)
        jid = self._new_id()
        j = Job(jid, name, "PD", deps, kind, inp, tuple(args))
        self.jobs[jid] = j
        self.order.append(jid)
        if "--parsable" not in args:
            return 0, "Submitted batch job %s\n" % jid, ""
        return 0, (jid + (";cluster1" if self.multi_cluster else "") + "\n"), ""

    def cmd_squeue(self, args, inp):
        rows = []
        for jid in self.order:
            j = self.jobs[jid]
            if j.in_queue:
                rows.append("%s;%s" % (jid, j.state))
        for jid, code in self.foreign:
            rows.append("%s;%s" % (jid, code))
        return 0, "".join(r + "\n" for r in rows), ""

    def cmd_sacct(self, args, inp):
        ids = []
        for k, a in enumerate(args):
            if a == "--jobs" and k + 1 < len(args):
                ids = args[k + 1].split(",")
        rows = []
        for jid in ids:
            if jid in self.acct_lag:
                rows.append("%s|%s" % (jid, self.acct_lag[jid]))
            elif jid in self.jobs and self.jobs[jid].acct is not False:
                st = self.jobs[jid].state
                rows.append("%s|%s" % (jid, SLURM_LONG.get(st, "PENDING" if st in ("CF", "RD", "RF", "RH", "SE", "SO") else "RUNNING")))
        return 0, "".join(r + "\n" for r in rows), ""

    def cmd_scancel(self, args, inp):
        jid = args[-1]
        j = self.jobs.get(jid)
        if j is not None and j.in_queue and j.state in SLURM_LIVE:
            j.state = "CA"
            j.in_queue = False
            return 0, "", "scancel: Terminating job %s\n" % jid
        return 0, "", "scancel: Terminating job %s\nscancel: error: Kill job error on job id %s: Invalid job id specified\n" % (jid, jid)

    def cmd_sinfo(self, args, inp):
        return 0, "", ""

    # ---- SGE
    def cmd_qsub(self, args, inp):
        deps, kind = deps_of_qsub(args)
        name = None
        for line in (inp or "").splitlines():
            m = re.match(r"#\$ -N (.*)$", line)
            if m:
                name = m.group(1)
        jid = self._new_id()
        j = Job(jid, name, "hqw" if deps else "qw", deps, kind, inp, tuple(args))
        self.jobs[jid] = j
        self.order.append(jid)
        if "-terse" in args:
            return 0, jid + "\n", ""
        return 0, 'Your job %s ("%s") has been submitted\n' % (jid, name), ""

    def cmd_qstat(self, args, inp):
        rows = ""
        for jid in self.order:
            j = self.jobs[jid]
            if j.in_queue:
                rows += "<job_list state=\"x\"><JB_job_number>%s</JB_job_number><JB_name>%s</JB_name><state>%s</state></job_list>" % (jid, j.name, j.state)
        for jid, code in self.foreign:
            rows += "<job_list state=\"x\"><JB_job_number>%s</JB_job_number><JB_name>other</JB_name><state>%s</state></job_list>" % (jid, code)
        return 0, "<?xml version='1.0'?><job_info><queue_info>%s</queue_info><job_info></job_info></job_info>" % rows, ""

    def cmd_qdel(self, args, inp):
        jid = args[-1]
        j = self.jobs.get(jid)
        if j is not None and j.in_queue:
            j.in_queue = False
            j.state = "deleted"
            return 0, "user has registered the job %s for deletion\n" % jid, ""
        return 1, "", 'denied: job "%s" does not exist\n' % jid

    # ---- LSF
    def cmd_bsub(self, args, inp):
        deps, kind = deps_of_bsub(args)
        name = None
        for line in (inp or "").splitlines():
            m = re.match(r"#BSUB -J (.*)$", line)
            if m:
                name = m.group(1)
        jid = self._new_id()
        j = Job(jid, name, "PEND", deps, kind, inp, tuple(args))
        self.jobs[jid] = j
        self.order.append(jid)
        return 0, "Job <%s> is submitted to queue <normal>.\n" % jid, ""

    def cmd_bjobs(self, args, inp):
        jid = args[-1]
        j = self.jobs.get(jid)
        if j is not None and j.in_queue:
            return 0, j.state + "\n", ""
        return 0, "", "Job <%s> is not found\n" % jid

    def cmd_bkill(self, args, inp):
        jid = args[-1]
        j = self.jobs.get(jid)
        if j is not None and j.in_queue and j.state not in ("DONE", "EXIT"):
            j.state = "EXIT"
            j.cancelled = True
            return 0, "Job <%s> is being terminated\n" % jid, ""
        return 255, "", "Job <%s>: No matching job found\n" % jid


# ---------------------------------------------------------------- reference readers of the dependency syntax
def deps_of_sbatch(args):
    """sbatch(1): --dependency=<type:job_id[:job_id][,type:job_id[:job_id]]> ; ',' = all must hold."""
    out, kinds = [], []
    for a in args:
        if a.startswith("--dependency=") or a.startswith("-d"):
            spec = a.split("=", 1)[1] if "=" in a else a[2:]
            for part in spec.split(","):
                bits = part.split(":")
                if len(bits) < 2 or bits[0] not in ("after", "afterany", "afterok", "afternotok", "afterburstbuffer", "aftercorr", "singleton"):
                    return [], "?" + spec
                for b in bits[1:]:
                    if not re.fullmatch(r"[0-9]+(\+[0-9]+)?", b):
                        return [], "?" + spec
                    out.append(b)
                kinds.append(bits[0])
    if not out:
        return [], None
    kind = kinds[0] if all(k == kinds[0] for k in kinds) else "mixed"
    return out, kind


def deps_of_qsub(args):
    """qsub(1): -hold_jid wc_job_list (comma separated job ids / names)."""
    for k, a in enumerate(args):
        if a == "-hold_jid":
            if k + 1 >= len(args):
                return [], "?missing"
            ids = args[k + 1].split(",")
            for b in ids:
                if not re.fullmatch(r"[0-9]+", b):
                    return [], "?" + args[k + 1]
            return ids, "hold"
    return [], None


def deps_of_bsub(args):
    """bsub(1): -w 'dependency_expression'; only a conjunction of done(<id>) holds the job until
    all of them finished successfully (and never releases it if one exits)."""
    for k, a in enumerate(args):
        if a == "-w":
            if k + 1 >= len(args):
                return [], "?missing"
            expr = args[k + 1]
            ids = []
            for term in expr.split("&&"):
                m = re.fullmatch(r"\s*done\(\s*([0-9]+)\s*\)\s*", term)
                if not m:
                    return [], "?" + expr
                ids.append(m.group(1))
            return ids, "done"
    return [], None


# ---------------------------------------------------------------- interposition
SIM = None
POOL = None     # model of the local worker pool reachable through socket.socket
REAL = {}


class FakePopen:
    def __init__(self, argv, **kw):
        self.argv = list(argv)
        self.returncode = None
        self.kw = kw

    def communicate(self, input=None, timeout=None):
        if getattr(self, "_killed", False):
            self.returncode = -9
            return "", ""
        exe = os.path.basename(self.argv[0])
        SIM.answer_is_late = False
        rc, out, err = SIM.run(exe, self.argv[1:], input)
        if SIM.answer_is_late and timeout is not None:
            SIM.answer_is_late = False
            raise subprocess.TimeoutExpired(self.argv, timeout)      # the caller gave up waiting; the scheduler has acted all the same
        self.returncode = rc
        return out, err

    def wait(self, timeout=None):
        return self.returncode

    def poll(self):
        return self.returncode

    def kill(self):
        self._killed = True

    def terminate(self):
        self._killed = True

    def __enter__(self):
        return self

    def __exit__(self, *a):
        return False


def f_popen(argv, *a, **kw):
    if SIM is not None and isinstance(argv, (list, tuple)) and argv and isinstance(argv[0], str) and argv[0].startswith("/sim/bin/"):
        return FakePopen(argv, **kw)
    return REAL["popen"](argv, *a, **kw)


def f_which(name, *a, **kw):
    if SIM is not None:
        for kind, exes in EXES.items():
            if name in exes:
                return "/sim/bin/" + name if kind == SIM.kind else None
    return REAL["which"](name, *a, **kw)


# ---- local pool model behind socket.socket
class PoolModel:
    """Reference model of the worker-pool protocol as seen by a client (C11-C14 treat the real
    server).  States are LocalStatus names."""

    def __init__(self, first_tid=0):
        self.next = first_tid
        self.tasks = {}       # tid -> dict(name, deps, state, script, working_dir)
        self.order = []
        self.requests = []
        self.connected = 0
        self.refuse = False
        self.refuse_first = 0     # the workers come up late: this many connection attempts are refused first
        self.attempts = []        # every address a connection was attempted to
        self.slept = []           # what the client slept between attempts (time.sleep is stubbed)
        self.fault_at = None
        self.nreq = 0

    def handle(self, line):
        msg = json.loads(line)
        self.requests.append(msg)
        kind = msg.get("__kind__")
        if kind in ("enqueue_task", "cancel_task"):
            self.nreq += 1
            if self.fault_at is not None and self.nreq == self.fault_at:
                raise ConnectionResetError("connection lost (injected)")
        if kind == "enqueue_task":
            tid = self.next
            self.next += 1
            self.tasks[tid] = {"name": msg["name"], "deps": list(msg["deps"]), "state": "SUBMITTED", "script": msg["script"], "working_dir": msg["working_dir"]}
            self.order.append(tid)
            return json.dumps({"__kind__": "task_enqueued", "tid": tid}) + "\n"
        if kind == "get_task_states":
            return json.dumps({"__kind__": "task_states", "tasks": {str(t): v["state"] for t, v in self.tasks.items()}}) + "\n"
        if kind == "cancel_task":
            t = self.tasks.get(msg["tid"])
            if t is not None and t["state"] in ("SUBMITTED", "RUNNING"):
                t["state"] = "CANCELLED"
            return None
        if kind == "close":
            return None
        return None


class _PoolFile:
    def __init__(self, sock, mode):
        self.sock = sock
        self.mode = mode

    def write(self, data):
        self.sock.outbox += data
        return len(data)

    def flush(self):
        while "\n" in self.sock.outbox:
            line, self.sock.outbox = self.sock.outbox.split("\n", 1)
            resp = POOL.handle(line)
            if resp is not None:
                self.sock.inbox.append(resp)

    def readline(self):
        if self.sock.inbox:
            return self.sock.inbox.pop(0)
        return ""

    def close(self):
        pass


class FakeSocket:
    def __init__(self, *a, **kw):
        self.outbox = ""
        self.inbox = []
        self.addr = None

    def connect(self, addr):
        POOL.attempts.append(tuple(addr))
        if POOL.refuse or len(POOL.attempts) <= POOL.refuse_first:
            raise ConnectionRefusedError(111, "Connection refused (sim)")
        self.addr = addr
        POOL.connected += 1
        POOL.last_addr = addr

    def makefile(self, mode="r", encoding=None, **kw):
        return _PoolFile(self, mode)

    def close(self):
        pass

    def settimeout(self, *a):
        pass


class PatchedSocket(socket.socket):
    """socket.socket while the interposition is installed: a pool model is reachable instead of
    the network (a subclass, so that ssl/asyncio keep working if they are imported meanwhile)."""

    def __new__(cls, *a, **kw):
        if POOL is not None and cls is PatchedSocket:
            return FakeSocket(*a, **kw)
        return socket.socket.__new__(cls)


def f_create_connection(address, *a, **kw):
    if POOL is None:
        return REAL["create_connection"](address, *a, **kw)
    sock = socket.socket(socket.AF_INET, socket.SOCK_STREAM)      # no name lookup: the pool model is the only peer
    sock.connect(tuple(address))
    return sock


class _NoSleep:
    """Stands in for the `time` module inside gwf.backends.local: the retry back-off does not really wait."""

    def sleep(self, seconds):
        if POOL is not None:
            POOL.slept.append(seconds)
            if len(POOL.slept) > 50:
                raise ConnectionRefusedError("gave up after 50 stubbed sleeps (sim)")

    def __getattr__(self, name):
        import time as _t
        return getattr(_t, name)


_INSTALLED = [False]


def install(sim=None, pool=None):
    global SIM, POOL
    SIM = sim
    POOL = pool
    if _INSTALLED[0]:
        return
    REAL.update(popen=subprocess.Popen, which=shutil.which, socket=socket.socket, create_connection=socket.create_connection)
    subprocess.Popen = f_popen
    shutil.which = f_which
    socket.socket = PatchedSocket
    socket.create_connection = f_create_connection
    from gwf.backends import local as _local
    REAL["local_time"] = _local.time
    _local.time = _NoSleep()
    _INSTALLED[0] = True


def uninstall():
    global SIM, POOL
    SIM = None
    POOL = None
    if not _INSTALLED[0]:
        return
    subprocess.Popen = REAL["popen"]
    shutil.which = REAL["which"]
    socket.socket = REAL["socket"]
    socket.create_connection = REAL["create_connection"]
    from gwf.backends import local as _local
    _local.time = REAL["local_time"]
    _INSTALLED[0] = False
