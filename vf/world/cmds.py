"""Command-level harness: the real click command bodies of gwf over the virtual world.

    w = World("slurm"); w.target("A", ["src"], ["a"]); ...; w.install()
    w.run(); w.status(); w.clean(all_=True, force=True); w.touch(); w.cancel(force=True); ...
    w.uninstall()

What is real: the undecorated bodies of gwf.plugins.{run,status,clean,touch,cancel,info,logs,config}
(cmd.callback.__wrapped__), Workflow/Target/Graph, create_backend -> the real backend factory ->
TrackingBackend + *Ops, FileSpecHashes, FileConfig.  What is stubbed: the file system (VFS), the
scheduler executables (Sim) or the pool socket (PoolModel), loading workflow.py from disk
(gwf.workflow.load_workflow returns the Workflow object built by the query), entry-point
discovery (memoised result of the real discover_backends), click.echo/secho/confirm (captured /
scripted), logging (records captured unformatted).
"""
import logging
import os
import pathlib
from collections import ChainMap

import click

from vf.world import schedsim, vfs

from gwf import Workflow
from gwf import workflow as workflow_mod
from gwf.backends import base as base_mod
from gwf.conf import CONFIG_DEFAULTS, FileConfig
from gwf.core import Context
from gwf.plugins import cancel as cancel_mod
from gwf.plugins import clean as clean_mod
from gwf.plugins import config as config_mod
from gwf.plugins import info as info_mod
from gwf.plugins import logs as logs_mod
from gwf.plugins import run as run_mod
from gwf.plugins import status as status_mod
from gwf.plugins import touch as touch_mod

ROOT = "/vfs/proj"

_REAL = {}
_BACKENDS = {}


class _Capture:
    """Log records of gwf, captured raw.  logging.Logger._log is replaced while a world is installed:
    building a real LogRecord reads the clock, and CrossHair makes time.time() symbolic, which
    would fork paths on the record's timestamp."""

    def __init__(self):
        self.records = []


CAPTURE = _Capture()


def _captured_log(self, level, msg, args, exc_info=None, extra=None, stack_info=False, stacklevel=1):
    CAPTURE.records.append((self.name, level, msg, args))


_NAME_HASH = {}


def _target_hash(t):
    from vf import q
    with q.notrace():
        name = t.name
        h = _NAME_HASH.get(name)
        if h is None:
            import zlib
            h = zlib.crc32(name.encode("utf-8"))
            _NAME_HASH[name] = h
        return h


def raw(cmd):
    f = cmd.callback
    return getattr(f, "__wrapped__", f)


class World:
    def __init__(self, backend="slurm", user_config=None, first_id=100):
        self.backend = backend
        self.vfs = vfs.VFS()
        self.vfs.dirs.update({ROOT, ROOT + "/.gwf", ROOT + "/.gwf/logs"})
        self.sim = None
        self.pool = None
        if backend == "local":
            self.pool = schedsim.PoolModel()
        else:
            self.sim = schedsim.Sim(backend, first_id=first_id)
        self.user_config = dict(user_config or {})
        self.wf = Workflow(working_dir=ROOT)
        self.out = []           # echoed lines
        self.confirm_answer = True
        self.confirms = []
        self.installed = False
        self.symbolic = False
        self._opts = {}

    # ---- building the project
    def target(self, name, inputs, outputs, spec=None, **kw):
        t = self.wf.target(name, inputs=inputs, outputs=outputs, **kw)
        t.spec = spec if spec is not None else "make " + name
        self._opts[name] = dict(t.options)
        return t

    def file(self, rel, mtime, content=""):
        if type(mtime) is not int or type(content) is not str:
            self.symbolic = True
        self.vfs.add(ROOT + "/" + rel, mtime, content)

    def concretely(self, fn, *a, **kw):
        """Run a command untraced.  Sound only while nothing symbolic has entered the world (then
        every value the real code handles is concrete and the untraced run is exact): guarded."""
        if self.symbolic:
            raise AssertionError("concrete prefix requested after symbolic content entered the world")
        from vf import q
        with q.notrace():
            return fn(*a, **kw)

    def tracked_path(self):
        return "%s/.gwf/%s-backend-tracked.json" % (ROOT, self.backend)

    def hashes_path(self):
        return ROOT + "/.gwf/spec-hashes.json"

    # ---- install / uninstall
    def install(self):
        vfs.install(self.vfs)
        schedsim.install(self.sim, self.pool)
        if not _REAL:
            _REAL.update(load_workflow=workflow_mod.load_workflow, discover=base_mod.discover_backends,
                         echo=click.echo, secho=click.secho, confirm=click.confirm, pager=click.echo_via_pager)
        if not _BACKENDS:
            _BACKENDS.update(_REAL["discover"]())
        workflow_mod.load_workflow = lambda path, obj: self.wf
        base_mod.discover_backends = lambda: _BACKENDS
        click.echo = self._echo
        click.secho = self._echo
        click.echo_via_pager = self._echo
        click.confirm = self._confirm
        # Target hashes by identity, so the iteration order of gwf's sets of targets depends on memory
        # addresses: make it a function of the (unique) name, so that symbolic runs and replays see one order
        from gwf.core import Target
        _REAL.setdefault("target_hash", Target.__hash__)
        Target.__hash__ = _target_hash
        root = logging.getLogger("gwf")
        root.setLevel(logging.INFO)
        _REAL.setdefault("_log", logging.Logger._log)
        logging.Logger._log = _captured_log
        logging.disable(logging.NOTSET)
        del CAPTURE.records[:]
        self.installed = True

    def uninstall(self):
        vfs.uninstall()
        schedsim.uninstall()
        if _REAL:
            workflow_mod.load_workflow = _REAL["load_workflow"]
            base_mod.discover_backends = _REAL["discover"]
            click.echo = _REAL["echo"]
            click.secho = _REAL["secho"]
            click.echo_via_pager = _REAL["pager"]
            click.confirm = _REAL["confirm"]
            logging.Logger._log = _REAL["_log"]
            from gwf.core import Target
            Target.__hash__ = _REAL["target_hash"]
        self.installed = False

    def _echo(self, message=None, *a, **kw):
        self.out.append("" if message is None else message)

    def _confirm(self, text, default=False, abort=False, **kw):
        self.confirms.append(text)
        if not self.confirm_answer and abort:
            raise click.Abort()
        return self.confirm_answer

    # ---- one gwf invocation = fresh config object + fresh Context (as cli.main would build them)
    def ctx(self):
        for name, opts in self._opts.items():     # a new invocation re-imports workflow.py
            self.wf.targets[name].options = dict(opts)
        config = FileConfig.load(pathlib.Path(ROOT + "/.gwfconf.json"))
        for k, v in self.user_config.items():
            config.data.maps[0].setdefault(k, v)
        return Context(working_dir=ROOT, config=config, backend=self.backend,
                       workflow_file=pathlib.Path(ROOT + "/workflow.py"), workflow_obj="gwf")

    def run(self, targets=(), dry_run=False):
        del self.out[:]
        return raw(run_mod.run)(self.ctx(), tuple(targets), dry_run)

    def status(self, targets=(), status=(), endpoints=False, format="default"):
        del self.out[:]
        raw(status_mod.status)(self.ctx(), tuple(status), endpoints, format, tuple(targets))
        return list(self.out)

    def status_table(self, **kw):
        lines = self.status(**kw)
        table = {}
        names = set(self.wf.targets)
        words = ("shouldrun", "submitted", "running", "completed", "failed", "cancelled")
        for line in lines:
            # a row names one target and one status word; column order, symbols and further columns are free
            parts = [p.strip(",;:|()[]") for p in str(line).split()]
            nm = [p for p in parts if p in names]
            st = [p.lower() for p in parts if p.lower() in words]
            if len(nm) == 1 and len(st) >= 1:
                table[nm[0]] = st[0]
        return table

    def clean(self, targets=(), all_=False, force=False):
        return raw(clean_mod.clean)(self.ctx(), tuple(targets), all_, force)

    def touch(self, targets=()):
        return raw(touch_mod.touch)(self.ctx(), tuple(targets))

    def cancel(self, targets=(), force=False):
        del self.out[:]
        return raw(cancel_mod.cancel)(self.ctx(), tuple(targets), force)

    def info(self, targets=(), format="json"):
        del self.out[:]
        return raw(info_mod.info)(self.ctx(), tuple(targets), format)

    def logs(self, target, stderr=False):
        del self.out[:]
        raw(logs_mod.logs)(self.ctx(), target, stderr, True)
        return list(self.out)

    def config_set(self, key, value):
        return raw(config_mod.set)(self.ctx(), key, value)

    def config_unset(self, key):
        return raw(config_mod.unset)(self.ctx(), key)

    def config_get(self, key):
        del self.out[:]
        raw(config_mod.get)(self.ctx(), key)
        return self.out[-1] if self.out else None

    # ---- observations
    def view(self):
        """The part of the file system the properties speak about: workflow files (everything outside .gwf),
        logs, and the two state files.  Other files gwf may keep for itself under .gwf (temporary files, caches,
        locks) are its own business and deliberately not part of the comparison."""
        snap = self.vfs.snapshot()
        keep = {}
        gwfdir = ROOT + "/.gwf/"
        for path, val in snap.items():
            if not path.startswith(gwfdir) or path.startswith(gwfdir + "logs/") or path in (self.tracked_path(), self.hashes_path()):
                keep[path] = val
        return keep

    def log_records(self, level=logging.INFO):
        return [r for r in CAPTURE.records if r[1] >= level]

    def would_submit(self):
        """Targets a dry run announces (any INFO record that speaks of submitting and carries a target; wording is free)."""
        out = []
        for name, level, msg, args in CAPTURE.records:
            if level >= logging.INFO and "ubmit" in str(msg) and args and hasattr(args[0], "name"):
                out.append(str(args[0].name))
        return out

    def reported_lines(self):
        """Everything the command told the user: echoed lines and log records from WARNING up (the channel is free)."""
        out = [str(x) for x in self.out]
        for name, level, msg, args in CAPTURE.records:
            if level >= logging.WARNING:
                try:
                    out.append(str(msg) % tuple(args) if args else str(msg))
                except Exception:
                    out.append(str(msg) + " " + " ".join(str(getattr(a, "name", a)) for a in args))
        return out

    def clear_records(self):
        del CAPTURE.records[:]
