"""The local worker pool on a deterministic event loop.

Real: gwf.backends.local.Scheduler (enqueue_task, cancel_task, try_handle_task, _gentle_kill) and
Server.handle_connection as real coroutines, run by asyncio's own pure-Python Task/Future classes
(asyncio.tasks._PyTask, futures._PyFuture) with the real asyncio.Semaphore / wait / wait_for /
sleep / shield.  Replaced: the event loop (DetLoop: FIFO ready queue as BaseEventLoop, timer heap,
virtual clock, no selector), child processes (FakeProc), log files (VFS).

The environment delivers *events* between quiescent points (or, with flush=False, without letting
the pool react first, which creates the races between an exit/time-out and a cancel request):
    ("exit", proc_index, rc)   a live child exits with status rc
    ("cancel", tid)            a client asks to cancel task tid (any task, finished ones too)
    ("timer",)                 the virtual clock advances to the next timer (time limit, kill grace)
    ("enqueue", k)             the k-th late task of the scenario is submitted
"""
import asyncio
import collections
import heapq
from asyncio import events, futures, tasks

from vf.world import vfs

from gwf.backends import local
from gwf.backends.local import LocalStatus, Scheduler

FINAL = (LocalStatus.FAILED, LocalStatus.COMPLETED, LocalStatus.CANCELLED, LocalStatus.KILLED)
FAILED_LIKE = (LocalStatus.FAILED, LocalStatus.KILLED)


class DetLoop(asyncio.AbstractEventLoop):
    def __init__(self):
        self._ready = collections.deque()
        self._timers = []
        self._now = 0.0
        self._seq = 0
        self.exceptions = []
        self.steps = 0

    def time(self):
        return self._now

    def get_debug(self):
        return False

    def is_running(self):
        return True

    def is_closed(self):
        return False

    def call_soon(self, cb, *args, context=None):
        h = events.Handle(cb, args, self, context)
        self._ready.append(h)
        return h

    call_soon_threadsafe = call_soon

    def call_later(self, delay, cb, *args, context=None):
        return self.call_at(self._now + delay, cb, *args, context=context)

    def call_at(self, when, cb, *args, context=None):
        h = events.TimerHandle(when, cb, args, self, context)
        self._seq += 1
        heapq.heappush(self._timers, (when, self._seq, h))
        h._scheduled = True
        return h

    def _timer_handle_cancelled(self, h):
        pass

    def create_future(self):
        return futures._PyFuture(loop=self)

    def create_task(self, coro, *, name=None, context=None):
        return tasks._PyTask(coro, loop=self, name=name, context=context)

    def call_exception_handler(self, ctx):
        self.exceptions.append(ctx)

    def default_exception_handler(self, ctx):
        self.exceptions.append(ctx)

    # ---- driver
    def run_ready(self, limit=5000):
        n = 0
        while self._ready:
            h = self._ready.popleft()
            if not h._cancelled:
                events._set_running_loop(self)
                try:
                    h._run()
                finally:
                    events._set_running_loop(None)
            n += 1
            self.steps += 1
            if n > limit:
                raise RuntimeError("event loop does not quiesce")

    def has_timer(self):
        for when, seq, h in self._timers:
            if not h._cancelled:
                return True
        return False

    def fire_next_timer(self):
        while self._timers:
            when, _, h = heapq.heappop(self._timers)
            if h._cancelled:
                continue
            if when > self._now:
                self._now = when
            self._ready.append(h)
            return True
        return False

    def run_coro(self, coro):
        t = self.create_task(coro)
        self.run_ready()
        return t.result()


class FakeProc:
    def __init__(self, pool, tid, script):
        self.pool = pool
        self.tid = tid
        self.script = script
        self.returncode = None
        self.exit = pool.loop.create_future()
        self.kill_calls = 0
        self.term_calls = 0
        self.wait_calls = 0
        self.ignores_term = pool.ignore_term
        self.big_output = pool.big_output   # writes more than the pipes hold: it can only exit while somebody reads them
        self.reading = False
        self.stdout = ("out of %s" % script).encode()
        self.stderr = ("err of %s" % script).encode()
        self.ran_to_end = False
        self.rc_given = None
        self.spawned_at = pool.loop.time()
        self.killed_at = None

    def alive(self):
        return self.returncode is None

    async def communicate(self):
        self.reading = True
        await asyncio.shield(self.exit)
        return self.stdout, self.stderr

    def kill(self):
        self.kill_calls += 1
        if self.killed_at is None:
            self.killed_at = self.pool.loop.time()
        if self.returncode is None:
            self.returncode = -9
            self.exit.set_result(-9)

    def terminate(self):
        self.term_calls += 1
        if self.killed_at is None:
            self.killed_at = self.pool.loop.time()
        if self.returncode is None and not self.ignores_term:
            self.returncode = -15
            self.exit.set_result(-15)

    async def wait(self):
        self.wait_calls += 1
        await asyncio.shield(self.exit)
        return self.returncode

    def finish(self, rc):
        self.returncode = rc
        self.ran_to_end = True
        self.exit.set_result(rc)


class SemProxy:
    """Counting proxy around the real asyncio.Semaphore."""

    def __init__(self, sem):
        self.sem = sem
        self.acq = 0
        self.rel = 0
        self.over_release = False

    async def acquire(self):
        r = await self.sem.acquire()
        self.acq += 1
        return r

    def release(self):
        self.rel += 1
        if self.rel > self.acq:
            self.over_release = True
        self.sem.release()

    def locked(self):
        return self.sem.locked()


POOL = None
_REAL = {}


async def _fake_shell(script, stdout=None, stderr=None, cwd=None, **kw):
    p = POOL
    tid = p.current_tid(script)
    if not isinstance(script, str):
        raise ValueError("cmd must be a string")
    p.spawn_attempts.append(tid)
    if p.spawn_fails(script):
        raise FileNotFoundError(2, "No such file or directory (working dir)", str(cwd))
    proc = FakeProc(p, tid, script)
    p.procs.append(proc)
    # facts at the instant of the spawn
    s = p.sched
    deps = p.deps.get(tid, [])
    p.spawn_facts[tid] = {
        "deps_done_completed": all((d in s.tasks and s.tasks[d].done() and s.task_states.get(d) == LocalStatus.COMPLETED) for d in deps),
        "deps_truly_ok": [(p.proc_of(d) is not None and p.proc_of(d).ran_to_end and p.proc_of(d).rc_given == 0) for d in deps],
        "live_at_spawn": sum(1 for q in p.procs if q.alive()),
        "state_at_spawn": s.task_states.get(tid),
    }
    return proc


class Pool:
    ROOT = "/vfs/proj"

    def __init__(self, max_cores=1, ignore_term=False, big_output=False):
        global POOL
        self.big_output = big_output
        self.loop = DetLoop()
        self.world = vfs.VFS()
        self.world.dirs.update({self.ROOT, self.ROOT + "/.gwf", self.ROOT + "/.gwf/logs"})
        self.procs = []
        self.deps = {}
        self.names = {}
        self.spawn_attempts = []
        self.spawn_facts = {}
        self.spawn_fail_names = set()
        self.blank_tids = []
        self.pending_names = []
        self.log_fail_names = set()
        self.ignore_term = ignore_term
        self.cancel_requests = []      # (tid, state before the request)
        self.processed = []            # (tid, state, returncode of its process) when cancel_task ran
        self.history = []
        self.max_live = 0
        self.max_cores = max_cores
        POOL = self
        events._set_running_loop(self.loop)
        try:
            self.sched = Scheduler(self.ROOT, max_cores)
        finally:
            events._set_running_loop(None)
        self.sem = SemProxy(self.sched.cores_ressource)
        self.sched.cores_ressource = self.sem
        self.world.fail_write = lambda path: any(path.endswith("/" + n + ".stdout") or path.endswith("/" + n + ".stderr") for n in self.log_fail_names)

    # ---- install / uninstall the process + file stubs
    def install(self):
        vfs.install(self.world)
        import logging
        from vf.world import cmds
        _REAL.setdefault("_log", logging.Logger._log)
        logging.Logger._log = cmds._captured_log      # no LogRecord (it would read the clock, which CrossHair makes symbolic)
        logging.disable(logging.NOTSET)
        if "shell" not in _REAL:
            _REAL["shell"] = asyncio.create_subprocess_shell
        asyncio.create_subprocess_shell = _fake_shell
        if "cancel_task" not in _REAL:
            _REAL["cancel_task"] = Scheduler.cancel_task
        real_cancel = _REAL["cancel_task"]

        async def recording_cancel_task(sched, tid):
            # observation only: the state the real cancel_task sees when the request is processed
            pr = POOL.proc_of(tid)
            POOL.processed.append((tid, sched.task_states.get(tid), pr.returncode if pr is not None else None))
            return await real_cancel(sched, tid)
        Scheduler.cancel_task = recording_cancel_task

    def uninstall(self):
        vfs.uninstall()
        import logging
        if "_log" in _REAL:
            logging.Logger._log = _REAL["_log"]
        if "shell" in _REAL:
            asyncio.create_subprocess_shell = _REAL["shell"]
        if "cancel_task" in _REAL:
            Scheduler.cancel_task = _REAL["cancel_task"]

    def current_tid(self, script):
        # scripts are "job <name>", names unique per task; the tid is the one enqueue_task assigned
        for tid, st in self.sched.task_states.items():
            if tid not in self.names and self.pending_names and script == "job " + self.pending_names[-1]:
                self.names[tid] = self.pending_names[-1]
        for tid, nm in self.names.items():
            if script == "job " + nm:
                return tid
        if isinstance(script, str) and script.strip() == "":
            for tid in self.blank_tids:              # a task whose script is blank (a grouping target): the oldest one not yet started
                if self.proc_of(tid) is None and tid not in self.spawn_attempts:
                    return tid
        return None

    def spawn_fails(self, script):
        return script[4:] in self.spawn_fail_names

    # ---- client-side operations (as the server would call them)
    def enqueue(self, name, deps=(), time_limit=None, spawn_fail=False, log_fail=False):
        """Submit a task (the request is processed to quiescence, as a served client line is)."""
        if log_fail:
            self.log_fail_names.add(name)
        if spawn_fail:
            self.spawn_fail_names.add(name)
        self.pending_names.append(name)
        # "q#2" is a second task *named* q (two projects sharing a pool, or a target resubmitted after a cancel): the part after # only keeps the scripts apart
        blank = name.endswith("!e")                # "g!e": a target called g whose script is blank
        tid = self.loop.run_coro(self.sched.enqueue_task(name=name.split("#")[0].replace("!e", ""), script="  \n" if blank else "job " + name, working_dir=self.ROOT, time_limit=time_limit, deps=list(deps)))
        if blank:
            self.blank_tids.append(tid)
        self.deps[tid] = list(deps)
        self.names[tid] = name
        self.history.append(("enqueue", tid))
        self.settle()
        return tid

    def cancel(self, tid):
        """A cancel request arrives; it is processed when the loop next runs."""
        self.cancel_requests.append((tid, self.sched.task_states.get(tid)))
        self.history.append(("cancel", tid))
        self.loop.create_task(self.sched.cancel_task(tid))

    def exit(self, proc, rc):
        self.history.append(("exit", proc.tid, "rc"))
        proc.finish(rc)

    def timer(self):
        self.history.append(("timer",))
        return self.loop.fire_next_timer()

    def settle(self):
        self.loop.run_ready()
        live = sum(1 for p in self.procs if p.alive())
        if live > self.max_live:
            self.max_live = live

    def live(self):
        return [p for p in self.procs if p.alive()]

    def can_exit(self):
        """Live children that are able to terminate by themselves now (a child blocked on a full pipe is not)."""
        return [p for p in self.procs if p.alive() and (p.reading or not p.big_output)]

    def state(self, tid):
        return self.sched.task_states.get(tid)

    def proc_of(self, tid):
        for p in self.procs:
            if p.tid == tid:
                return p
        return None

    def log(self, name, stream):
        f = self.world.files.get("%s/.gwf/logs/%s.%s" % (self.ROOT, name.split("#")[0].replace("!e", ""), stream))
        return None if f is None else f[1]
