"""Targets over a shared pool of canonical files, with per-target working directories and a
different spelling of every file for every target (so that the relation queries of C03/C04 also
exercise path normalisation)."""
from vf.world import vfs

from gwf.core import Target

CANON = ["/vfs/p/f0", "/vfs/p/d/f1", "/vfs/p/f2", "/vfs/p/d/f3"]
WDIRS = ["/vfs/p", "/vfs/p/d", "/vfs/p", "/vfs/p/d"]
SPELL = [
    ["f0", "d/f1", "./f2", "d/./f3"],
    ["../f0", "f1", "/vfs/p/f2", "./f3"],
    ["d/../f0", "d//f1", "f2", "/vfs/p/d/f3"],
    ["../f0", "./f1", "../d/../f2", "f3"],
]


SPECS = ["", "run 1", "  \n", "run 3"]        # a phony target (empty or blank spec) is a target like any other


def make_targets(nt, nf, roles, order, names=None):
    """roles[t][f] concrete ints 0..3; order = permutation of range(nt) (definition order).
    Returns (list of targets in definition order, dict index->target)."""
    by_index = {}
    for t in range(nt):
        ins = [SPELL[t][f] for f in range(nf) if roles[t][f] in (1, 3)]
        outs = [SPELL[t][f] for f in range(nf) if roles[t][f] in (2, 3)]
        shape_in = ins if t % 2 == 0 else {"grp": ins}
        shape_out = {"o%d" % i: p for i, p in enumerate(outs)} if t % 2 == 0 else [outs]
        nm = names[t] if names else "T%d" % t
        by_index[t] = Target(name=nm, inputs=shape_in, outputs=shape_out, options={}, working_dir=WDIRS[t], spec=SPECS[t])
    return [by_index[t] for t in order], by_index


def world_with_files(nf, exists):
    w = vfs.VFS()
    w.dirs.update({"/vfs/p", "/vfs/p/d"})
    for f in range(nf):
        if exists[f]:
            w.add(CANON[f], 5, "content %d" % f)
    return w


def perms(n):
    if n == 1:
        return [[0]]
    out = []
    for p in perms(n - 1):
        for k in range(n):
            out.append(p[:k] + [n - 1] + p[k:])
    return out
