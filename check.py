#!/usr/bin/env python3
"""Driver: decide one property with the solver-based queries of vf/props/<ID>.py.

    ./check.py C01 [--tier quick|thorough] [--only Q1a,Q1b] [--jobs 16]
    ./check.py --replay /verif/replays/<file>.json

Exit 0: every query CONFIRMED over all paths within its bound (and every vacuity twin reached,
        every sampled path validated against the real code);
exit 1: a counterexample reproduced against the real code  -> "VIOLATION property=<id> replay=<path>";
exit 3: INCONCLUSIVE (budget exhausted, solver unknown, engine error, non-reproducing
        counterexample, vacuous query) - never reported as a pass.
"""
import concurrent.futures
import hashlib
import json
import os
import subprocess
import sys
import time

VERIF = os.path.dirname(os.path.abspath(__file__))
REPO = os.environ.get("VF_REPO", "/repo")
VENV_PY = "/verif/.venv/bin/python"      # setup.sh builds it there (also when check.py runs from a snapshot of /verif)


def bootstrap():
    if os.path.realpath(sys.executable) != os.path.realpath(VENV_PY) or os.environ.get("VF_BOOT") != "1":
        if not os.path.exists(VENV_PY):
            subprocess.run([os.path.join(VERIF, "setup.sh")], check=True, stdout=sys.stderr)
        env = dict(os.environ)
        env["VF_BOOT"] = "1"
        env["PYTHONPATH"] = VERIF + os.pathsep + os.path.join(REPO, "src")
        env["PYTHONDONTWRITEBYTECODE"] = "1"
        env["PYTHONHASHSEED"] = "0"
        env.setdefault("GWF_VERIF", "1")
        os.execve(VENV_PY, [VENV_PY, os.path.abspath(__file__)] + sys.argv[1:], env)


def run_sub(args, wall):
    t0 = time.time()
    try:
        p = subprocess.run([VENV_PY, "-m", "vf.runq"] + args, cwd=VERIF, capture_output=True, text=True, timeout=wall)
        return p.returncode, p.stdout, p.stderr, time.time() - t0
    except subprocess.TimeoutExpired as exc:
        return -9, (exc.stdout or b"").decode() if isinstance(exc.stdout, bytes) else (exc.stdout or ""), "wall timeout", time.time() - t0


def parse(prefix, out):
    for line in out.splitlines():
        if line.startswith(prefix + " "):
            return json.loads(line[len(prefix) + 1:])
    return None


def job(prop, qu, shard, tier, exclude):
    timeout = qu["timeout"][tier] if isinstance(qu["timeout"], dict) else qu["timeout"]
    # the declared budgets were sized on an idle 16-core machine (measured CPU <= 35% of the budget); CrossHair's budget is
    # wall-clock, so leave room for a machine that is shared with other checks
    timeout = timeout * float(os.environ.get("VF_TSCALE", "2"))
    if os.environ.get("VF_TMAX"):
        timeout = min(timeout, float(os.environ["VF_TMAX"]))
    args = [prop, qu["name"], json.dumps(shard, sort_keys=True), "--timeout", str(timeout)]
    if exclude:
        args += ["--exclude", ",".join(sorted(exclude))]
    rc, out, err, wall = run_sub(args, wall=timeout * 4 + 240)
    res = parse("RESULT", out)
    if res is None:
        res = {"prop": prop, "query": qu["name"], "shard": shard, "verdict": "UNKNOWN",
               "messages": [["DRIVER", "no result (rc=%s): %s" % (rc, (err or "")[-600:])]], "stats": {}, "cpu_s": 0,
               "samples": [], "validated": 0, "validation_mismatch": []}
    res["wall_s"] = round(wall, 2)
    return res


def replay_file(path):
    rc, out, err, wall = run_sub(["--replay", path], wall=600)
    rep = parse("REPLAY", out)
    if rep is None:
        return None, (err or "")[-500:]
    return rep, ""


def main():
    bootstrap()
    argv = sys.argv[1:]
    if argv and argv[0] == "--replay":
        rep, err = replay_file(argv[1])
        print(json.dumps(rep) if rep else "replay failed: " + err)
        return 1 if rep and rep["reproduced"] else 0
    prop = argv[0]
    tier = os.environ.get("VERIF_TIER", "quick")
    only = None
    noevidence = False
    jobs = int(os.environ.get("VF_JOBS", str(os.cpu_count() or 8)))
    i = 1
    while i < len(argv):
        if argv[i] == "--tier":
            tier = argv[i + 1]; i += 2
        elif argv[i] == "--only":
            only = set(argv[i + 1].split(",")); i += 2
        elif argv[i] == "--jobs":
            jobs = int(argv[i + 1]); i += 2
        elif argv[i] == "--noevidence":  # development aid (seed matrix): leave /verif/evidence alone
            noevidence = True; i += 1
        elif argv[i] == "--tmax":       # development aid: cap every query's CPU budget
            os.environ["VF_TMAX"] = argv[i + 1]; i += 2
        else:
            raise SystemExit("bad argument " + argv[i])
    seed = int(os.environ.get("VERIF_SEED", "0") or 0)
    t0 = time.time()
    sys.path.insert(0, VERIF)
    import importlib
    from vf import q as qmod
    mod = importlib.import_module("vf.props." + prop)
    os.makedirs(os.path.join(VERIF, "replays"), exist_ok=True)
    os.makedirs(os.path.join(VERIF, "evidence"), exist_ok=True)

    # ---- known findings: witnesses decide which exclusions are active
    kf_path = os.path.join(VERIF, "known_findings.json")
    findings = json.load(open(kf_path))["findings"] if os.path.exists(kf_path) else []
    active = set()
    kf_lines = []
    kf_report = []
    for f in findings:
        if f["property"] != prop:
            continue
        if f["status"] != "open":
            kf_report.append({"id": f["id"], "status": f["status"], "commit": f.get("commit")})
            continue
        w = dict(f["witness"])
        w["prop"] = prop
        w["exclude"] = []
        wpath = os.path.join(VERIF, "replays", "witness-%s.json" % f["id"])
        json.dump(w, open(wpath, "w"))
        rep, err = replay_file(wpath)
        still = bool(rep and rep["reproduced"])
        kf_report.append({"id": f["id"], "status": "open", "witness_still_fails": still, "msg": (rep or {}).get("msg", err)[:300]})
        if still:
            active.add(f["id"])
            kf_lines.append("KNOWN-FINDING: property=%s %s [%s]" % (prop, f["what"], f["id"]))

    # ---- the queries
    work = []
    skipped_queries = []
    for qu in mod.QUERIES:
        if only and qu["name"] not in only:
            continue
        if qu.get("skip_if_excluded") in active:
            skipped_queries.append(qu["name"])     # its whole region is a listed known finding whose witness still fails
            continue
        shards = qu["shards"][tier] if isinstance(qu["shards"], dict) else qu["shards"]
        for sh in shards:
            work.append((qu, sh))
    if seed:
        import random
        random.Random(seed).shuffle(work)
    # longest first
    work.sort(key=lambda w: -(w[0]["timeout"][tier] if isinstance(w[0]["timeout"], dict) else w[0]["timeout"]))
    results = []
    with concurrent.futures.ThreadPoolExecutor(max_workers=jobs) as ex:
        futs = [ex.submit(job, prop, qu, sh, tier, active) for qu, sh in work]
        for fu in concurrent.futures.as_completed(futs):
            results.append(fu.result())
    results.sort(key=lambda r: (r["query"], json.dumps(r["shard"], sort_keys=True)))

    # ---- verdicts
    violations = []
    inconclusive = []
    for r in results:
        tag = "%s %s %s" % (prop, r["query"], json.dumps(r["shard"], sort_keys=True))
        if r["verdict"] == "REFUTED":
            h = hashlib.sha1(json.dumps([r["query"], r["shard"], r["cex"]["args"]], sort_keys=True).encode()).hexdigest()[:10]
            rpath = os.path.join(VERIF, "replays", "%s-%s-%s.json" % (prop, r["query"], h))
            json.dump({"prop": prop, "query": r["query"], "shard": r["shard"], "args": r["cex"]["args"],
                       "exclude": sorted(active), "symbolic_msg": r["cex"]["msg"]}, open(rpath, "w"), indent=1)
            rep, err = replay_file(rpath)
            if rep and rep["reproduced"]:
                r["replay"] = rep
                violations.append((r, rpath, rep))
            else:
                r["replay"] = rep or {"error": err}
                inconclusive.append((tag, "counterexample did not reproduce against the real code (engine imprecision): %s" % r["cex"]))
        elif r["verdict"] == "CONFIRMED":
            if r.get("twin") != "REACHED":
                inconclusive.append((tag, "vacuity twin %s" % r.get("twin")))
            if r.get("validation_mismatch"):
                inconclusive.append((tag, "sampled path disagrees when re-run concretely: %s" % r["validation_mismatch"][:1]))
        else:
            inconclusive.append((tag, "not confirmed: %s" % (r.get("messages") or [])[:2]))

    # ---- evidence
    nq = len(results)
    st = lambda k: sum(int(r.get("stats", {}).get(k, 0)) for r in results)
    samples = []
    for r in results:
        for s in r.get("samples", [])[:2]:
            samples.append({"query": r["query"], "shard": r["shard"], "args": s["args"], "verdict": "agrees with oracle"})
        if len(samples) >= 12:
            break
    for r, rpath, rep in violations:
        samples.insert(0, {"query": r["query"], "shard": r["shard"], "args": r["cex"]["args"], "verdict": "VIOLATION: " + rep["msg"][:300]})
    if not samples:
        samples = [{"note": "no path completed"}]
    import z3
    try:
        import crosshair
        xh_ver = getattr(crosshair, "__version__", "0.0.110")
    except Exception:
        xh_ver = "?"
    meta = getattr(mod, "META", {})
    ev = {
        "property_id": prop,
        "tier": tier,
        "seed": seed,
        "level": "model_checking",
        "coverage": {
            "states": max(st("reached"), 0),
            "transitions": max(st("choices"), 0),
            "traces_validated_against_impl": sum(int(r.get("validated", 0)) for r in results),
            "samples": samples,
            "evaluations": st("paths"),
            "distinct_nontrivial": st("reached"),
            "rule": "one evaluation = one symbolic execution path (a distinct path condition decided by z3) of a query over the real gwf code; "
                    "states = paths on which every assumption held and the real code was compared with the oracle; transitions = solver-decided "
                    "branch points along those paths; non-trivial = reached the comparison (assumption-pruned paths are not counted)",
            "exhaustive": all(r["verdict"] == "CONFIRMED" for r in results) and not inconclusive,
            "explanation": "bounded symbolic model checking of the implementation: CrossHair executes the real functions on symbolic arguments, z3 decides "
                           "every branch; 'Confirmed over all paths' = every feasible path inside the stated bound explored and the negated post-condition unsat on each",
            "queries_discharged": sum(1 for r in results if r["verdict"] == "CONFIRMED"),
            "queries_total": nq,
            "queries": [{"query": r["query"], "shard": r["shard"], "verdict": r["verdict"], "twin": r.get("twin"),
                         "paths": r.get("stats", {}).get("paths"), "reached": r.get("stats", {}).get("reached"),
                         "solver_and_interpreter_cpu_s": r.get("cpu_s"), "validated": r.get("validated")} for r in results],
            "functions_encoded": meta.get("real", []),
            "solver_reasoned_variables": meta.get("solver_reasoned", ""),
            "bounds": {qu["name"]: qu.get("bound", "") for qu in mod.QUERIES if not only or qu["name"] in only},
            "outside_bounds": meta.get("outside", []),
            "stubs": meta.get("stubs", []),
            "solver_cpu_s_total": round(sum(float(r.get("cpu_s", 0)) + float(r.get("twin_cpu_s", 0)) for r in results), 1),
            "engines": {"crosshair-tool": xh_ver, "z3": z3.get_version_string()},
            "known_findings": kf_report,
            "queries_not_run_because_their_region_is_a_known_finding": skipped_queries,
            "inconclusive": [list(x) for x in inconclusive][:10],
        },
        "assumptions": meta.get("assumptions", []) + ["analysed source tree: " + os.path.join(REPO, "src")],
        "wall_s": round(time.time() - t0, 1),
        "violations": len(violations),
    }
    extra = getattr(mod, "extra_evidence", None)
    if extra:
        try:
            ev["coverage"].update(extra(tier, results))
        except Exception as exc:
            ev["coverage"]["extra_error"] = repr(exc)
    if ev["coverage"]["states"] < 1:
        ev["coverage"]["states"] = 0
    if not noevidence:
        json.dump(ev, open(os.path.join(VERIF, "evidence", prop + ".json"), "w"), indent=1)

    # ---- report
    for line in kf_lines:
        print(line)
    for r in results:
        print("%-9s %s %s %s paths=%s reached=%s cpu=%ss twin=%s" % (r["verdict"], prop, r["query"], json.dumps(r["shard"], sort_keys=True),
              r.get("stats", {}).get("paths"), r.get("stats", {}).get("reached"), r.get("cpu_s"), r.get("twin")))
    for r, rpath, rep in violations:
        print("  counterexample %s %s args=%s: %s" % (r["query"], json.dumps(r["shard"]), r["cex"]["args"], rep["msg"][:500]))
        if rep.get("e2e"):
            print("  end-to-end replay: %s" % (rep["e2e"],))
        print("VIOLATION property=%s replay=%s" % (prop, rpath))
    if violations:
        return 1
    if inconclusive:
        for tag, why in inconclusive:
            print("INCONCLUSIVE %s: %s" % (tag, why[:600]))
        return 3
    print("OK property=%s tier=%s queries=%d paths=%d wall=%.0fs" % (prop, tier, nq, st("paths"), time.time() - t0))
    return 0


if __name__ == "__main__":
    sys.exit(main())
